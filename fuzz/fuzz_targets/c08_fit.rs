#![no_main]
use libfuzzer_sys::fuzz_target;
mod common;
use common::*;
use vpharness::gen::{case_from_raw, spec_from_raw, CaseCfg};
use vpharness::props::c08::{exec_dyn, wild_from_raw};
use vpharness::props::drive::lm_from_raw;

// in-process: hangs are caught by libFuzzer's -timeout, panics by catch (reported with a replay)
fuzz_target!(|data: &[u8]| {
    let mut c = Cur::new(data);
    let cfg = CaseCfg { max_s: 3, max_n: 24, ..CaseCfg::default() };
    let m_pick = c.u16();
    let kinds: Vec<(u16, u16)> = (0..6).map(|_| (c.u16(), c.u16())).collect();
    let p_pick = c.u16();
    let slots = c.vec16(16);
    let dup = c.u16();
    let spec = spec_from_raw(cfg.spec, m_pick, &kinds, p_pick, &slots, dup);
    let head = (c.u16(), c.u16(), c.u16());
    let tail = (c.u16(), c.u16(), c.u16(), c.u16(), c.u16());
    let regime = c.u16();
    let shape = c.u16();
    let lm = lm_from_raw(30, (c.u16(), c.u16(), c.u16(), c.u16(), c.u16(), c.u8() % 2 == 0));
    let nupd = (c.u8() % 3) as usize;
    let raws: Vec<Vec<u16>> = (0..nupd).map(|_| c.vec16(8)).collect();
    let sp: Vec<(u16, u16, u16)> = (0..64).map(|_| (c.u16(), c.u16(), c.u16())).collect();
    let us = c.vec16(48);
    let ys: Vec<f64> = (0..200).map(|_| (c.u16() as f64 / 65536.0 - 0.5) * 10.0).collect();
    let base = case_from_raw(cfg, spec, (head.0, head.1, head.2, us, ys, tail.0, tail.1, tail.2, tail.3, tail.4));
    let case = wild_from_raw(base, &raws, lm, regime, &sp, shape);
    match vpharness::engine::catch(|| exec_dyn(&case)) {
        Ok(Ok(_)) => {}
        Ok(Err(f)) => report("C08", &case, &f.sub, &f.msg),
        Err(p) => report("C08", &case, "panic", &p),
    }
});

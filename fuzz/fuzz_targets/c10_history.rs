#![no_main]
use libfuzzer_sys::fuzz_target;
mod common;
use common::*;
use vpharness::engine::Property;
use vpharness::gen::{case_from_raw, spec_from_raw, CaseCfg};
use vpharness::props::c10::{c10_from_raw, C10};

// update/query histories on a problem (C10): the same construction and the same oracle as the
// proptest path (history vs freshly built problem, two heap poison patterns), driven by coverage
fuzz_target!(|data: &[u8]| {
    let mut c = Cur::new(data);
    let cfg = CaseCfg { max_s: 4, max_n: 24, ..CaseCfg::default() };
    let m_pick = c.u16();
    let kinds: Vec<(u16, u16)> = (0..6).map(|_| (c.u16(), c.u16())).collect();
    let p_pick = c.u16();
    let slots = c.vec16(16);
    let dup = c.u16();
    let spec = spec_from_raw(cfg.spec, m_pick, &kinds, p_pick, &slots, dup);
    let head = (c.u16(), c.u16(), c.u16());
    let tail = (c.u16(), c.u16(), c.u16(), c.u16(), c.u16());
    let pl = c.u16();
    let nops = 1 + (c.u8() % 12) as usize;
    let raw_ops: Vec<(u16, Vec<u16>, u16)> = (0..nops).map(|_| (c.u16(), c.vec16(8), c.u16())).collect();
    let us = c.vec16(48);
    let ys: Vec<f64> = (0..200).map(|_| (c.u16() as f64 / 65536.0 - 0.5) * 10.0).collect();
    let base = case_from_raw(cfg, spec, (head.0, head.1, head.2, us, ys, tail.0, tail.1, tail.2, tail.3, tail.4));
    let case = c10_from_raw(base, raw_ops, pl);
    match vpharness::engine::catch(|| C10.check(&case)) {
        Ok(Ok(_)) => {}
        Ok(Err(f)) => report("C10", &case, &f.sub, &f.msg),
        Err(p) => report("C10", &case, "panic", &p),
    }
});

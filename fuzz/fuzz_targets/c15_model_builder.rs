#![no_main]
use libfuzzer_sys::fuzz_target;
mod common;
use common::*;
use vpharness::props::c15::{check_program, program_from_raw};

fuzz_target!(|data: &[u8]| {
    let mut c = Cur::new(data);
    let src = c.u16();
    let nm = c.u16();
    let muts: Vec<(u16, u16, u16)> = (0..3).map(|_| (c.u16(), c.u16(), c.u16())).collect();
    let us = c.vec16(120);
    let prog = program_from_raw(&us, src, &muts, nm);
    match vpharness::engine::catch(|| check_program(&prog)) {
        Ok(Ok(_)) => {}
        Ok(Err(f)) => report("C15", &prog, &f.sub, &f.msg),
        Err(p) => report("C15", &prog, "panic", &p),
    }
});

#![no_main]
use libfuzzer_sys::fuzz_target;
mod common;
use common::*;
use vpharness::engine::Property;
use vpharness::props::c17::{c17_from_raw, C17};

// misuse histories on builder-made models (C17, and through the expected matrices C16): the same
// construction and reference state machine as the proptest path, driven by coverage
fuzz_target!(|data: &[u8]| {
    let mut c = Cur::new(data);
    let f32 = c.u8() % 4 == 0;
    let nops = 1 + (c.u8() % 16) as usize;
    let raw_ops: Vec<(u16, u16, u16, Vec<i32>)> = (0..nops).map(|_| (c.u16(), c.u16(), c.u16(), (0..10).map(|_| (c.u8() % 40) as i32).collect())).collect();
    let us = c.vec16(160);
    let case = c17_from_raw(&us, raw_ops, f32);
    match vpharness::engine::catch(|| C17.check(&case)) {
        Ok(Ok(_)) => {}
        Ok(Err(f)) => report("C17", &case, &f.sub, &f.msg),
        Err(p) => report("C17", &case, "panic", &p),
    }
});

#![no_main]
use libfuzzer_sys::fuzz_target;
mod common;
use common::*;
use vpharness::engine::Property;
use vpharness::props::c18::{c18_from_raw, C18};

fuzz_target!(|data: &[u8]| {
    let mut c = Cur::new(data);
    let l = (c.u8() % 7) as usize;
    let ctor = c.u8() % 4;
    let flags = c.u16();
    let ncalls = (c.u8() % 8) as usize;
    let raw: Vec<(u16, u16, u16)> = (0..ncalls).map(|_| (c.u16(), c.u16(), c.u16())).collect();
    let case = c18_from_raw(l, ctor, raw, flags);
    match vpharness::engine::catch(|| C18.check(&case)) {
        Ok(Ok(_)) => {}
        Ok(Err(f)) => report("C18", &case, &f.sub, &f.msg),
        Err(p) => report("C18", &case, "panic", &p),
    }
});

// shared by the fuzz targets: a cursor over the input bytes (exhausted input yields zeros, so
// every byte string decodes), and failure reporting as replay file + VIOLATION line + abort.
pub struct Cur<'a> {
    d: &'a [u8],
    i: usize,
}
impl<'a> Cur<'a> {
    pub fn new(d: &'a [u8]) -> Self {
        Cur { d, i: 0 }
    }
    pub fn u8(&mut self) -> u8 {
        let v = self.d.get(self.i).copied().unwrap_or(0);
        self.i += 1;
        v
    }
    pub fn u16(&mut self) -> u16 {
        u16::from_le_bytes([self.u8(), self.u8()])
    }
    pub fn vec16(&mut self, n: usize) -> Vec<u16> {
        (0..n).map(|_| self.u16()).collect()
    }
}

pub fn report<C: serde::Serialize>(id: &str, case: &C, sub: &str, msg: &str) -> ! {
    let dir = std::path::PathBuf::from(std::env::var("VERIF_DIR").unwrap_or_else(|_| "/verif".into())).join("replays").join(id);
    let _ = std::fs::create_dir_all(&dir);
    let cj = serde_json::to_value(case).unwrap_or(serde_json::Value::Null);
    let fp = vpharness::engine::fnv64(serde_json::to_string(&cj).unwrap_or_default().as_bytes());
    let path = dir.join(format!("fuzz-{fp:016x}.json"));
    let body = serde_json::json!({"property": id, "sub": sub, "msg": msg, "origin": "libFuzzer target", "case": cj});
    let _ = std::fs::write(&path, serde_json::to_string_pretty(&body).unwrap());
    eprintln!("VIOLATION property={id} replay={}", path.display());
    eprintln!("  sub-check: {sub}");
    eprintln!("  message  : {msg}");
    std::process::abort()
}

//! Uniform, object-safe view (`Prob<T>`) of the 2x2 problem flavours
//! LevMarProblem<Model, MRHS, PAR>, of fit results and of fit statistics, plus the
//! probing wrapper that lets the harness observe every parameter update the optimizer
//! issues — all through public API of varpro and levenberg-marquardt.
use crate::Sc;
use levenberg_marquardt::{LeastSquaresProblem, LevenbergMarquardt, MinimizationReport, TerminationReason};
use nalgebra::{DMatrix, DVector, Dyn, Owned};
use std::cell::{Cell, RefCell};
use varpro::prelude::*;
use varpro::solvers::levmar::{FitResult, LevMarProblem, LevMarProblemBuilder, LevMarSolver};
use varpro::statistics::FitStatistics;
use varpro::util::Weights;

#[derive(Clone, Copy, Debug, PartialEq, Eq)]
pub struct Shape {
    pub n: usize,
    pub m: usize,
    pub p: usize,
    pub s: usize,
}

/// mirror of levenberg_marquardt::TerminationReason (owned, comparable)
#[derive(Clone, Debug, PartialEq, Eq)]
pub enum Term {
    User(String),
    Numerical(String),
    ResidualsZero,
    Orthogonal,
    Converged { ftol: bool, xtol: bool },
    NoImprovementPossible(String),
    LostPatience,
    NoParameters,
    NoResiduals,
    WrongDimensions(String),
}

impl Term {
    pub fn from_lm(t: &TerminationReason) -> Term {
        match t {
            TerminationReason::User(s) => Term::User(s.to_string()),
            TerminationReason::Numerical(s) => Term::Numerical(s.to_string()),
            TerminationReason::ResidualsZero => Term::ResidualsZero,
            TerminationReason::Orthogonal => Term::Orthogonal,
            TerminationReason::Converged { ftol, xtol } => Term::Converged { ftol: *ftol, xtol: *xtol },
            TerminationReason::NoImprovementPossible(s) => Term::NoImprovementPossible(s.to_string()),
            TerminationReason::LostPatience => Term::LostPatience,
            TerminationReason::NoParameters => Term::NoParameters,
            TerminationReason::NoResiduals => Term::NoResiduals,
            TerminationReason::WrongDimensions(s) => Term::WrongDimensions(s.to_string()),
        }
    }
    /// The harness' own statement of which termination reasons count as success
    /// (property C04): residuals zero, orthogonal, converged. Written out here, not taken
    /// from `was_successful`.
    pub fn counts_as_success(&self) -> bool {
        matches!(self, Term::ResidualsZero | Term::Orthogonal | Term::Converged { .. })
    }
    pub fn tag(&self) -> &'static str {
        match self {
            Term::User(_) => "User",
            Term::Numerical(_) => "Numerical",
            Term::ResidualsZero => "ResidualsZero",
            Term::Orthogonal => "Orthogonal",
            Term::Converged { .. } => "Converged",
            Term::NoImprovementPossible(_) => "NoImprovementPossible",
            Term::LostPatience => "LostPatience",
            Term::NoParameters => "NoParameters",
            Term::NoResiduals => "NoResiduals",
            Term::WrongDimensions(_) => "WrongDimensions",
        }
    }
}

#[derive(Clone, Debug)]
pub struct Report<T> {
    pub term: Term,
    pub evals: usize,
    pub objective: T,
}

impl<T: Sc> Report<T> {
    fn from_lm(r: &MinimizationReport<T>) -> Self {
        Report { term: Term::from_lm(&r.termination), evals: r.number_of_evaluations, objective: r.objective_function }
    }
}

pub trait StatsObj<T: Sc>: Send {
    fn cov(&self) -> DMatrix<T>;
    fn corr(&self) -> DMatrix<T>;
    /// the deprecated accessor `correlation_matrix()`
    fn corr_deprecated(&self) -> DMatrix<T>;
    fn chi2(&self) -> T;
    fn rse(&self) -> T;
    fn wres(&self) -> Vec<T>;
    fn lin_var(&self) -> Vec<T>;
    fn nonlin_var(&self) -> Vec<T>;
    /// may panic (documented) for illegal probabilities
    fn band(&self, p: T) -> Vec<T>;
}

impl<T: Sc, M: SeparableNonlinearModel<ScalarType = T>> StatsObj<T> for FitStatistics<M> {
    fn cov(&self) -> DMatrix<T> {
        self.covariance_matrix().clone()
    }
    fn corr(&self) -> DMatrix<T> {
        self.calculate_correlation_matrix()
    }
    #[allow(deprecated)]
    fn corr_deprecated(&self) -> DMatrix<T> {
        self.correlation_matrix()
    }
    fn chi2(&self) -> T {
        self.reduced_chi2()
    }
    fn rse(&self) -> T {
        self.regression_standard_error()
    }
    fn wres(&self) -> Vec<T> {
        self.weighted_residuals().iter().copied().collect()
    }
    fn lin_var(&self) -> Vec<T> {
        self.linear_coefficients_variance().iter().copied().collect()
    }
    fn nonlin_var(&self) -> Vec<T> {
        self.nonlinear_parameters_variance().iter().copied().collect()
    }
    fn band(&self, p: T) -> Vec<T> {
        self.confidence_band_radius(p).iter().copied().collect()
    }
}

pub struct FitOut<T: Sc> {
    /// `Result::is_ok()` of fit() / fit_with_statistics()
    pub ok: bool,
    /// FitResult::was_successful()
    pub was_successful: bool,
    pub report: Report<T>,
    /// FitResult::nonlinear_parameters()
    pub alpha: Vec<T>,
    /// FitResult::linear_coefficients(), as a matrix (one column for a single rhs)
    pub coeffs: Option<DMatrix<T>>,
    /// FitResult::best_fit(), as a matrix
    pub best_fit: Option<DMatrix<T>>,
    /// the static type of best_fit()/linear_coefficients() was a vector
    pub vector_typed: bool,
    pub problem: Box<dyn Prob<T>>,
    pub stats: Option<Box<dyn StatsObj<T>>>,
}

#[derive(Clone, Copy, Debug, PartialEq, Eq)]
pub enum ProbeEv {
    /// about to apply the parameters passed as the third callback argument
    BeforeSet,
    AfterSet,
    Residuals,
    Jacobian,
}

pub trait Prob<T: Sc>: Send {
    fn set_params(&mut self, a: &[T]);
    fn params(&self) -> Vec<T>;
    fn residuals(&self) -> Option<Vec<T>>;
    fn jacobian(&self) -> Option<DMatrix<T>>;
    fn coeffs(&self) -> Option<DMatrix<T>>;
    fn wdata(&self) -> DMatrix<T>;
    /// the weights as a vector (None for unit weights)
    fn weights_vec(&self) -> Option<Vec<T>>;
    fn phi(&self) -> Result<DMatrix<T>, String>;
    fn dphi(&self, k: usize) -> Result<DMatrix<T>, String>;
    fn model_params(&self) -> Vec<T>;
    fn shape(&self) -> Shape;
    fn is_mrhs(&self) -> bool;
    fn is_par(&self) -> bool;
    fn fit(self: Box<Self>, lm: &LevenbergMarquardt<T>) -> FitOut<T>;
    /// fit_with_statistics; panics for MRHS problems (not offered by the API)
    fn fit_stats(self: Box<Self>, lm: &LevenbergMarquardt<T>) -> FitOut<T>;
    /// LevenbergMarquardt::minimize on a probing wrapper around this problem
    fn minimize_probed(
        self: Box<Self>,
        lm: &LevenbergMarquardt<T>,
        cb: &mut dyn FnMut(&dyn Prob<T>, ProbeEv, &[T]),
    ) -> (Box<dyn Prob<T>>, Report<T>);
    fn into_seq(self: Box<Self>) -> Box<dyn Prob<T>>;
}

/// the probing wrapper: a LeastSquaresProblem delegating to the wrapped problem and
/// calling back after every set_params / on every residuals / jacobian query
pub struct Probe<'a, T: Sc, P> {
    pub inner: P,
    cb: RefCell<&'a mut dyn FnMut(&dyn Prob<T>, ProbeEv, &[T])>,
    pub n_set: Cell<usize>,
}

impl<'a, T: Sc, P> LeastSquaresProblem<T, Dyn, Dyn> for Probe<'a, T, P>
where
    P: Prob<T>
        + LeastSquaresProblem<
            T,
            Dyn,
            Dyn,
            ResidualStorage = Owned<T, Dyn>,
            JacobianStorage = Owned<T, Dyn, Dyn>,
            ParameterStorage = Owned<T, Dyn>,
        >,
{
    type ResidualStorage = Owned<T, Dyn>;
    type JacobianStorage = Owned<T, Dyn, Dyn>;
    type ParameterStorage = Owned<T, Dyn>;

    fn set_params(&mut self, x: &DVector<T>) {
        {
            let mut cb = self.cb.borrow_mut();
            (cb)(&self.inner, ProbeEv::BeforeSet, x.as_slice());
        }
        LeastSquaresProblem::set_params(&mut self.inner, x);
        self.n_set.set(self.n_set.get() + 1);
        let mut cb = self.cb.borrow_mut();
        (cb)(&self.inner, ProbeEv::AfterSet, &[]);
    }
    fn params(&self) -> DVector<T> {
        LeastSquaresProblem::params(&self.inner)
    }
    fn residuals(&self) -> Option<DVector<T>> {
        {
            let mut cb = self.cb.borrow_mut();
            (cb)(&self.inner, ProbeEv::Residuals, &[]);
        }
        LeastSquaresProblem::residuals(&self.inner)
    }
    fn jacobian(&self) -> Option<DMatrix<T>> {
        {
            let mut cb = self.cb.borrow_mut();
            (cb)(&self.inner, ProbeEv::Jacobian, &[]);
        }
        LeastSquaresProblem::jacobian(&self.inner)
    }
}

fn weights_to_vec<T: Sc>(w: &Weights<T, Dyn>, n: usize) -> Option<Vec<T>> {
    match w {
        Weights::Unit => None,
        Weights::Diagonal(_) => {
            let ones = DVector::from_element(n, T::of(1.0));
            let v = w * ones;
            Some(v.iter().copied().collect())
        }
    }
}

fn fitout_srhs<T: Sc, M>(
    res: Result<FitResult<M, false>, FitResult<M, false>>,
    stats: Option<Box<dyn StatsObj<T>>>,
) -> FitOut<T>
where
    M: SeparableNonlinearModel<ScalarType = T> + Send + Sync + 'static,
{
    let ok = res.is_ok();
    let fr = match res {
        Ok(f) => f,
        Err(f) => f,
    };
    let coeffs = fr.linear_coefficients().map(|v| DMatrix::from_iterator(v.len(), 1, v.iter().copied()));
    let best_fit = fr.best_fit().map(|v| DMatrix::from_iterator(v.len(), 1, v.iter().copied()));
    FitOut {
        ok,
        was_successful: fr.was_successful(),
        report: Report::from_lm(&fr.minimization_report),
        alpha: fr.nonlinear_parameters().iter().copied().collect(),
        coeffs,
        best_fit,
        vector_typed: true,
        problem: Box::new(fr.problem),
        stats,
    }
}

fn fitout_mrhs<T: Sc, M>(res: Result<FitResult<M, true>, FitResult<M, true>>) -> FitOut<T>
where
    M: SeparableNonlinearModel<ScalarType = T> + Send + Sync + 'static,
{
    let ok = res.is_ok();
    let fr = match res {
        Ok(f) => f,
        Err(f) => f,
    };
    let coeffs = fr.linear_coefficients().map(|v| v.clone_owned());
    let best_fit = fr.best_fit();
    FitOut {
        ok,
        was_successful: fr.was_successful(),
        report: Report::from_lm(&fr.minimization_report),
        alpha: fr.nonlinear_parameters().iter().copied().collect(),
        coeffs,
        best_fit,
        vector_typed: false,
        problem: Box::new(fr.problem),
        stats: None,
    }
}

macro_rules! impl_prob {
    ($mrhs:tt, $par:tt) => {
        impl<T: Sc, M> Prob<T> for LevMarProblem<M, $mrhs, $par>
        where
            M: SeparableNonlinearModel<ScalarType = T> + Send + Sync + 'static,
        {
            fn set_params(&mut self, a: &[T]) {
                LeastSquaresProblem::set_params(self, &DVector::from_column_slice(a));
            }
            fn params(&self) -> Vec<T> {
                LeastSquaresProblem::params(self).iter().copied().collect()
            }
            fn residuals(&self) -> Option<Vec<T>> {
                LeastSquaresProblem::residuals(self).map(|v| v.iter().copied().collect())
            }
            fn jacobian(&self) -> Option<DMatrix<T>> {
                LeastSquaresProblem::jacobian(self)
            }
            fn coeffs(&self) -> Option<DMatrix<T>> {
                self.linear_coefficients()
                    .map(|v| DMatrix::from_iterator(v.nrows(), v.ncols(), v.iter().copied()))
            }
            fn wdata(&self) -> DMatrix<T> {
                let v = self.weighted_data();
                DMatrix::from_iterator(v.nrows(), v.ncols(), v.iter().copied())
            }
            fn weights_vec(&self) -> Option<Vec<T>> {
                weights_to_vec(self.weights(), self.model().output_len())
            }
            fn phi(&self) -> Result<DMatrix<T>, String> {
                self.model().eval().map_err(|e| e.to_string())
            }
            fn dphi(&self, k: usize) -> Result<DMatrix<T>, String> {
                self.model().eval_partial_deriv(k).map_err(|e| e.to_string())
            }
            fn model_params(&self) -> Vec<T> {
                self.model().params().iter().copied().collect()
            }
            fn shape(&self) -> Shape {
                Shape {
                    n: self.model().output_len(),
                    m: self.model().base_function_count(),
                    p: self.model().parameter_count(),
                    s: self.wdata().ncols(),
                }
            }
            fn is_mrhs(&self) -> bool {
                $mrhs
            }
            fn is_par(&self) -> bool {
                $par
            }
            fn fit(self: Box<Self>, lm: &LevenbergMarquardt<T>) -> FitOut<T> {
                // the default configuration goes through `LevMarSolver::default()`, the way users write it
                let solver = if *lm == LevenbergMarquardt::new() { LevMarSolver::<M, $mrhs>::default() } else { LevMarSolver::<M, $mrhs>::with_solver(*lm) };
                let res = solver.fit(*self);
                impl_prob!(@fitout $mrhs, res)
            }
            fn fit_stats(self: Box<Self>, lm: &LevenbergMarquardt<T>) -> FitOut<T> {
                impl_prob!(@fitstats $mrhs, self, lm, M)
            }
            fn minimize_probed(
                self: Box<Self>,
                lm: &LevenbergMarquardt<T>,
                cb: &mut dyn FnMut(&dyn Prob<T>, ProbeEv, &[T]),
            ) -> (Box<dyn Prob<T>>, Report<T>) {
                let probe = Probe { inner: *self, cb: RefCell::new(cb), n_set: Cell::new(0) };
                let (probe, rep) = lm.minimize(probe);
                (Box::new(probe.inner), Report::from_lm(&rep))
            }
            fn into_seq(self: Box<Self>) -> Box<dyn Prob<T>> {
                Box::new((*self).into_sequential())
            }
        }
    };
    (@fitout false, $res:ident) => { fitout_srhs($res, None) };
    (@fitout true, $res:ident) => { fitout_mrhs($res) };
    (@fitstats false, $self:ident, $lm:ident, $M:ident) => {{
        let solver = if *$lm == LevenbergMarquardt::new() { LevMarSolver::<$M, false>::default() } else { LevMarSolver::<$M, false>::with_solver(*$lm) };
        match solver.fit_with_statistics(*$self) {
            Ok((fr, st)) => fitout_srhs(Ok(fr), Some(Box::new(st))),
            Err(fr) => fitout_srhs(Err(fr), None),
        }
    }};
    (@fitstats true, $self:ident, $lm:ident, $M:ident) => {{
        let _ = ($self, $lm);
        panic!("harness bug: fit_with_statistics is not offered for multiple right hand sides")
    }};
}

impl_prob!(false, false);
impl_prob!(false, true);
impl_prob!(true, false);
impl_prob!(true, true);

/// what goes into a LevMarProblemBuilder
#[derive(Clone, Debug)]
pub struct Build<T: Sc> {
    /// N x S observations (S = 1 required when !mrhs)
    pub y: DMatrix<T>,
    pub w: Option<Vec<T>>,
    pub eps: Option<T>,
    pub mrhs: bool,
    pub par: bool,
}

macro_rules! finish_builder {
    ($b:expr, $bd:expr) => {{
        let mut b = $b;
        if let Some(w) = &$bd.w {
            b = b.weights(DVector::from_vec(w.clone()));
        }
        if let Some(e) = $bd.eps {
            b = b.epsilon(e);
        }
        match b.build() {
            Ok(p) => Ok(Box::new(p) as Box<dyn Prob<T>>),
            Err(e) => Err(format!("{:?}", e)),
        }
    }};
}

/// build a problem of the requested flavour; the error is the Debug rendering of the
/// (unnameable) LevMarBuilderError
pub fn build_problem<T: Sc, M>(model: M, bd: &Build<T>) -> Result<Box<dyn Prob<T>>, String>
where
    M: SeparableNonlinearModel<ScalarType = T> + Send + Sync + 'static,
{
    match (bd.mrhs, bd.par) {
        (false, false) => {
            assert_eq!(bd.y.ncols(), 1, "harness bug: single rhs needs one column");
            let y = DVector::from_iterator(bd.y.nrows(), bd.y.iter().copied());
            finish_builder!(LevMarProblemBuilder::new(model).observations(y), bd)
        }
        (false, true) => {
            assert_eq!(bd.y.ncols(), 1, "harness bug: single rhs needs one column");
            let y = DVector::from_iterator(bd.y.nrows(), bd.y.iter().copied());
            finish_builder!(LevMarProblemBuilder::new_parallel(model).observations(y), bd)
        }
        (true, false) => finish_builder!(LevMarProblemBuilder::mrhs(model).observations(bd.y.clone()), bd),
        (true, true) => finish_builder!(LevMarProblemBuilder::mrhs_parallel(model).observations(bd.y.clone()), bd),
    }
}

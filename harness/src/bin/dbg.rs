use vpharness::props::drive::{drive, TrajCase};
use vpharness::oracle::linalg::*;
fn main() {
    vpharness::engine::install_panic_hook();
    let path = std::env::args().nth(1).unwrap();
    let case: TrajCase = vpharness::engine::load_case(std::path::Path::new(&path)).unwrap();
    let mut visit = |p: &dyn vpharness::adapt::Prob<f32>, tag: &str| -> Result<(), vpharness::engine::Fail> {
        let phi = p.phi().map(|m| Mat::from_na(&m));
        match &phi { Ok(m) => println!("{tag}: params {:?} phi max {:e} finite {} coeffs present {}", p.params(), m.max_abs(), m.all_finite(), p.coeffs().is_some()), Err(e) => println!("{tag}: phi err {e}") }
        if let Ok(m) = &phi { if m.all_finite() { let s = svd(m); println!("   oracle sigma {:?}", s.s); 
           let na = nalgebra::DMatrix::<f32>::from_iterator(m.r, m.c, m.d.iter().map(|v| *v as f32)); let sn = na.svd(true,true); println!("   nalgebra sigma {:?} u finite {} v finite {}", sn.singular_values.as_slice(), sn.u.unwrap().iter().all(|v| v.is_finite()), sn.v_t.unwrap().iter().all(|v| v.is_finite()));
           println!("  phi = {:?}", m.d);
        } }
        if let Some(c) = p.coeffs() { println!("   coeffs {:?}", c.as_slice()); }
        Ok(())
    };
    let r = vpharness::engine::catch(|| drive::<f32>(&case.base, &case.updates, case.lm.as_ref(), &mut visit).map(|_| ()));
    println!("result: {:?}", r.map(|x| x.map_err(|f| f.msg)));
}

use vpharness::props::c06::C06Case;
use vpharness::props::oracles::*;
use vpharness::oracle::linalg::*;
fn main() {
    vpharness::engine::install_panic_hook();
    let path = std::env::args().nth(1).unwrap();
    let case: C06Case = vpharness::engine::load_case(std::path::Path::new(&path)).unwrap();
    let base = &case.base;
    let solver = case.lm.resolved::<f64>().solver::<f64>();
    let p = base.build::<f64>().unwrap();
    let fa = p.fit_stats(&solver);
    println!("ok {} term {:?} alpha {:?}", fa.ok, fa.report.term, fa.alpha);
    let c = Mat::from_na(&fa.problem.coeffs().unwrap());
    let h = stats_h(fa.problem.as_ref(), &c, true).unwrap();
    let sv = svd(&h);
    println!("H sigma {:?}", sv.s);
    if let Some(st) = &fa.stats { println!("cov {:?}", st.cov().as_slice()); println!("chi2 {:?}", st.chi2());
      let hn = nalgebra::DMatrix::from_column_slice(h.r, h.c, &h.d);
      let g = hn.transpose() * &hn;
      println!("G = {:?}", g.as_slice());
      let gi = g.clone().try_inverse().unwrap();
      println!("nalgebra inverse*chi2 {:?}", (gi.clone() * st.chi2()).as_slice());
      let lu = g.clone().lu(); let gi2 = lu.try_inverse().unwrap();
      println!("nalgebra LU inverse*chi2 {:?}", (gi2 * st.chi2()).as_slice());
      println!("G*Ginv - I = {:?}", (&g * &gi - nalgebra::DMatrix::identity(4,4)).as_slice());
      let inv = inv_gram_from_svd(&sv); println!("oracle cov {:?}", inv.scale(st.chi2()).d); }
}
#[allow(dead_code)]
fn unused() {}

//! vpcheck <ID> [--tier quick|thorough] [--replay FILE] [--cases N] | --selftest | --worker
use std::path::PathBuf;
use vpharness::engine::{install_panic_hook, RunCfg, Tier};

fn selftest() -> i32 {
    let mut ok = true;
    match vpharness::oracle::linalg::self_test() {
        Ok(n) => println!("oracle linalg self-test: {n} matrices ok"),
        Err(e) => {
            println!("oracle linalg self-test FAILED: {e}");
            ok = false;
        }
    }
    match vpharness::oracle::student::self_test() {
        Ok(n) => println!("oracle student-t self-test: {n} points ok"),
        Err(e) => {
            println!("oracle student-t self-test FAILED: {e}");
            ok = false;
        }
    }
    match vpharness::spec::self_test() {
        Ok(n) => println!("catalogue derivative self-test: {n} derivatives ok"),
        Err(e) => {
            println!("catalogue derivative self-test FAILED: {e}");
            ok = false;
        }
    }
    if ok {
        0
    } else {
        2
    }
}

fn main() {
    install_panic_hook();
    let args: Vec<String> = std::env::args().skip(1).collect();
    if args.is_empty() {
        eprintln!("usage: vpcheck <ID> [--tier quick|thorough] [--replay FILE] [--cases N] | --selftest | --worker");
        std::process::exit(2);
    }
    if args[0] == "--selftest" {
        std::process::exit(selftest());
    }
    if args[0] == "--worker" {
        std::process::exit(vpharness::engine::worker::worker_main());
    }
    let id = args[0].clone();
    let mut tier = match std::env::var("VERIF_TIER").ok().as_deref() {
        Some("thorough") => Tier::Thorough,
        _ => Tier::Quick,
    };
    let mut replay: Option<PathBuf> = None;
    let mut cases: Option<usize> = None;
    let mut i = 1;
    while i < args.len() {
        match args[i].as_str() {
            "--tier" => {
                i += 1;
                tier = match args.get(i).map(|s| s.as_str()) {
                    Some("quick") => Tier::Quick,
                    Some("thorough") => Tier::Thorough,
                    other => {
                        eprintln!("bad tier {other:?}");
                        std::process::exit(2)
                    }
                };
            }
            "--replay" => {
                i += 1;
                replay = args.get(i).map(PathBuf::from);
            }
            "--cases" => {
                i += 1;
                cases = args.get(i).and_then(|s| s.parse().ok());
            }
            other => {
                eprintln!("unknown argument {other}");
                std::process::exit(2);
            }
        }
        i += 1;
    }
    let seed: u64 = std::env::var("VERIF_SEED").ok().and_then(|s| s.trim().parse::<i128>().ok()).map(|v| v as u64).unwrap_or(0);
    let reg = vpharness::props::registry();
    let Some(p) = reg.iter().find(|p| p.id() == id) else {
        eprintln!("unknown property {id}");
        std::process::exit(2);
    };
    // oracle self tests are part of every run
    if selftest() != 0 {
        eprintln!("INTERNAL: oracle self-test failed; no verdict");
        std::process::exit(2);
    }
    // global watchdog: a time budget hit is "inconclusive" (exit 2), never a violation
    let limit = match (tier, replay.is_some()) {
        (_, true) => 600,
        (Tier::Quick, _) => 1500,
        (Tier::Thorough, _) => 4 * 3600,
    };
    std::thread::spawn(move || {
        std::thread::sleep(std::time::Duration::from_secs(limit));
        eprintln!("INCONCLUSIVE: wall-clock budget of {limit}s exceeded (reported as exit 2, not as a violation)");
        std::process::exit(2);
    });
    let code = match replay {
        Some(path) => p.replay(&path),
        None => p.run(&RunCfg { tier, seed, cases_override: cases }),
    };
    std::process::exit(code);
}

//! Engine: sharded, seeded proptest runner driven from a binary, bounded-exhaustive
//! enumerator, evidence writer, replay files, known-findings handling.
use proptest::strategy::{BoxedStrategy, Strategy};
use proptest::test_runner::{Config, RngSeed, TestCaseError, TestError, TestRunner};
use serde::de::DeserializeOwned;
use serde::Serialize;
use serde_json::{json, Value};
use std::collections::{BTreeMap, HashSet};
use std::fmt::Debug;
use std::panic::{catch_unwind, AssertUnwindSafe};
use std::path::{Path, PathBuf};
use std::sync::atomic::{AtomicBool, Ordering::SeqCst};
use std::sync::Mutex;
use std::time::Instant;

pub mod poison;
pub mod worker;

#[derive(Clone, Copy, Debug, PartialEq, Eq)]
pub enum Tier {
    Quick,
    Thorough,
}
impl Tier {
    pub fn name(self) -> &'static str {
        match self {
            Tier::Quick => "quick",
            Tier::Thorough => "thorough",
        }
    }
}

/// what a passing case reports back
#[derive(Clone, Debug, Default)]
pub struct Outcome {
    pub nontrivial: bool,
    /// class labels for the histogram in the evidence
    pub classes: Vec<String>,
    /// sub-checks that were gated (skipped) with their reason
    pub skipped: Vec<String>,
    /// additive counters (e.g. number of injected runs inside one scenario)
    pub counters: Vec<(String, u64)>,
    /// observed quantities of which the run-wide maximum is reported (measured margins)
    pub maxima: Vec<(String, f64)>,
}
impl Outcome {
    pub fn class(&mut self, c: impl Into<String>) {
        self.classes.push(c.into());
    }
    pub fn skip(&mut self, c: impl Into<String>) {
        self.skipped.push(c.into());
    }
    pub fn count(&mut self, c: impl Into<String>, n: u64) {
        self.counters.push((c.into(), n));
    }
    pub fn max(&mut self, c: impl Into<String>, v: f64) {
        self.maxima.push((c.into(), v));
    }
}

#[derive(Clone, Debug)]
pub struct Fail {
    /// sub-check identifier, stable (part of the known-findings signature)
    pub sub: String,
    pub msg: String,
}
impl Fail {
    pub fn new(sub: impl Into<String>, msg: impl Into<String>) -> Fail {
        Fail { sub: sub.into(), msg: msg.into() }
    }
}
pub type Check = Result<Outcome, Fail>;

#[macro_export]
macro_rules! ensure {
    ($cond:expr, $sub:expr, $($arg:tt)*) => {
        if !($cond) {
            return Err($crate::engine::Fail::new($sub, format!($($arg)*)));
        }
    };
}

pub trait Property: Send + Sync + 'static {
    type Case: Clone + Debug + Serialize + DeserializeOwned + Send + Sync + 'static;
    fn id(&self) -> &'static str;
    fn level(&self) -> &'static str {
        "exploration"
    }
    fn rule(&self) -> String;
    /// generator regimes shared by several checks (appended to the rule in the evidence)
    fn regimes(&self) -> &'static str {
        ""
    }
    fn assumptions(&self) -> Vec<String> {
        vec![]
    }
    fn cases(&self, tier: Tier) -> usize;
    fn strategy(&self, tier: Tier) -> BoxedStrategy<Self::Case>;
    fn check(&self, case: &Self::Case) -> Check;
    /// size of the dedicated rayon pool the whole check of this case runs in (parallel flavours:
    /// a deterministic function of the case, so that small pools — fewer workers than Jacobian
    /// columns — are exercised by every property, not only by C11); None = the global pool
    fn pool_of(&self, _case: &Self::Case) -> Option<usize> {
        None
    }
    /// optional bounded-exhaustive scope: (description, cases)
    fn enumerate(&self, _tier: Tier) -> Option<(String, Box<dyn Iterator<Item = Self::Case> + Send>)> {
        None
    }
    /// optional extra campaign after the generated search (e.g. statistical pooling,
    /// watched worker runs); may add keys to the evidence and return failures
    fn epilogue(&self, _tier: Tier, _seed: u64, _counters: &BTreeMap<String, u64>, _extra: &mut BTreeMap<String, Value>) -> Result<(), (Fail, Value)> {
        Ok(())
    }
    fn shards(&self) -> usize {
        16
    }
    /// shrink iterations granted to proptest
    fn max_shrink_iters(&self) -> u32 {
        400
    }
}

pub fn verif_dir() -> PathBuf {
    PathBuf::from(std::env::var("VERIF_DIR").unwrap_or_else(|_| "/verif".into()))
}

pub fn splitmix64(mut x: u64) -> u64 {
    x = x.wrapping_add(0x9e37_79b9_7f4a_7c15);
    let mut z = x;
    z = (z ^ (z >> 30)).wrapping_mul(0xbf58_476d_1ce4_e5b9);
    z = (z ^ (z >> 27)).wrapping_mul(0x94d0_49bb_1331_11eb);
    z ^ (z >> 31)
}

pub fn fnv64(bytes: &[u8]) -> u64 {
    let mut h = 0xcbf2_9ce4_8422_2325u64;
    for b in bytes {
        h ^= *b as u64;
        h = h.wrapping_mul(0x0000_0100_0000_01b3);
    }
    h
}

fn id_hash(id: &str) -> u64 {
    fnv64(id.as_bytes())
}

// ---------------------------------------------------------------------------------------
// panic capture

thread_local! {
    static LAST_PANIC: std::cell::RefCell<Option<String>> = const { std::cell::RefCell::new(None) };
    static QUIET: std::cell::Cell<bool> = const { std::cell::Cell::new(false) };
}

static LAST_PANIC_ANY: Mutex<Option<(String, String)>> = Mutex::new(None);

pub fn install_panic_hook() {
    let default = std::panic::take_hook();
    std::panic::set_hook(Box::new(move |info| {
        let loc = info.location().map(|l| format!("{}:{}", l.file(), l.line())).unwrap_or_default();
        let msg = if let Some(s) = info.payload().downcast_ref::<&str>() {
            s.to_string()
        } else if let Some(s) = info.payload().downcast_ref::<String>() {
            s.clone()
        } else {
            "<non-string panic payload>".to_string()
        };
        let text = format!("panicked at {loc}: {msg}");
        let quiet = QUIET.with(|q| q.get()) || std::thread::current().name().is_none();
        // fallback for panics on pool worker threads (rayon re-raises them on the caller's thread
        // without running the hook again): remembered process-wide, keyed by the message
        if let Ok(mut g) = LAST_PANIC_ANY.lock() {
            *g = Some((msg.clone(), text.clone()));
        }
        LAST_PANIC.with(|p| *p.borrow_mut() = Some(text));
        if !quiet {
            default(info);
        }
    }));
}

/// run f, turning a panic into Err(description with location)
pub fn catch<R>(f: impl FnOnce() -> R) -> Result<R, String> {
    let prev = QUIET.with(|q| q.replace(true));
    LAST_PANIC.with(|p| *p.borrow_mut() = None);
    let r = catch_unwind(AssertUnwindSafe(f));
    QUIET.with(|q| q.set(prev));
    match r {
        Ok(v) => Ok(v),
        Err(payload) => Err(LAST_PANIC.with(|p| p.borrow_mut().take()).unwrap_or_else(|| {
            let msg = if let Some(s) = payload.downcast_ref::<&str>() {
                s.to_string()
            } else if let Some(s) = payload.downcast_ref::<String>() {
                s.clone()
            } else {
                "<non-string panic payload>".to_string()
            };
            match LAST_PANIC_ANY.lock().ok().and_then(|g| g.clone()) {
                Some((m, text)) if m == msg => format!("{text} (on a pool worker thread)"),
                _ => format!("panicked on a pool worker thread: {msg}"),
            }
        })),
    }
}

/// strip line numbers/paths of the harness itself from a panic text so that signatures
/// stay stable: keeps "file:line" of the first location only
fn checked<P: Property>(p: &P, case: &P::Case) -> Check {
    // the panic message is captured on the thread that runs the check
    let r = match p.pool_of(case) {
        Some(n) => poison::pool(n).install(|| catch(|| p.check(case))),
        None => catch(|| p.check(case)),
    };
    match r {
        Ok(r) => r,
        Err(text) => Err(Fail::new("panic", text)),
    }
}

// ---------------------------------------------------------------------------------------
// known findings

#[derive(Clone, Debug, serde::Deserialize)]
pub struct Finding {
    pub property: String,
    /// "known" or "fixed"
    pub status: String,
    /// sub-check id the failure must carry
    #[serde(default)]
    pub sub: String,
    /// substring the failure message must contain
    #[serde(default)]
    pub msg_contains: String,
    pub what: String,
    #[serde(default)]
    pub commit: String,
}

pub fn load_findings() -> Vec<Finding> {
    let path = verif_dir().join("known_findings.json");
    match std::fs::read_to_string(&path) {
        Ok(s) => {
            let v: Value = serde_json::from_str(&s).expect("known_findings.json is not valid JSON");
            serde_json::from_value(v["findings"].clone()).expect("known_findings.json: bad 'findings'")
        }
        Err(_) => vec![],
    }
}

fn matching_known<'a>(findings: &'a [Finding], id: &str, f: &Fail) -> Option<&'a Finding> {
    findings.iter().find(|k| {
        k.property == id && k.status == "known" && k.sub == f.sub && (k.msg_contains.is_empty() || f.msg.contains(&k.msg_contains))
    })
}

// ---------------------------------------------------------------------------------------
// run state

#[derive(Default)]
struct Stats {
    evaluations: u64,
    nontrivial: HashSet<u64>,
    classes: BTreeMap<String, u64>,
    skipped: BTreeMap<String, u64>,
    counters: BTreeMap<String, u64>,
    maxima: BTreeMap<String, f64>,
    samples: Vec<(String, Value)>, // (why, case)
    sample_classes: HashSet<String>,
    known_hits: BTreeMap<String, u64>,
}

impl Stats {
    fn record<C: Serialize>(&mut self, case: &C, o: &Outcome) {
        self.evaluations += 1;
        let js = serde_json::to_string(case).unwrap_or_default();
        if o.nontrivial {
            self.nontrivial.insert(fnv64(js.as_bytes()));
        }
        for c in &o.classes {
            *self.classes.entry(c.clone()).or_insert(0) += 1;
        }
        for c in &o.skipped {
            *self.skipped.entry(c.clone()).or_insert(0) += 1;
        }
        for (k, n) in &o.counters {
            *self.counters.entry(k.clone()).or_insert(0) += n;
        }
        for (k, v) in &o.maxima {
            let e = self.maxima.entry(k.clone()).or_insert(f64::NEG_INFINITY);
            if *v > *e {
                *e = *v;
            }
        }
        if o.nontrivial {
            let n_first = self.samples.iter().filter(|(w, _)| w == "first").count();
            if n_first < 2 {
                self.samples.push(("first".into(), serde_json::from_str(&js).unwrap_or(Value::Null)));
                for c in &o.classes {
                    self.sample_classes.insert(c.clone());
                }
            } else if self.samples.len() < 6 {
                if let Some(c) = o.classes.iter().find(|c| !self.sample_classes.contains(*c)) {
                    self.samples.push((format!("class {c}"), serde_json::from_str(&js).unwrap_or(Value::Null)));
                    for c in &o.classes {
                        self.sample_classes.insert(c.clone());
                    }
                }
            }
        }
    }
    fn merge(&mut self, o: Stats) {
        self.evaluations += o.evaluations;
        self.nontrivial.extend(o.nontrivial);
        for (k, v) in o.classes {
            *self.classes.entry(k).or_insert(0) += v;
        }
        for (k, v) in o.skipped {
            *self.skipped.entry(k).or_insert(0) += v;
        }
        for (k, v) in o.counters {
            *self.counters.entry(k).or_insert(0) += v;
        }
        for (k, v) in o.known_hits {
            *self.known_hits.entry(k).or_insert(0) += v;
        }
        for (k, v) in o.maxima {
            let e = self.maxima.entry(k).or_insert(f64::NEG_INFINITY);
            if v > *e {
                *e = v;
            }
        }
        for (w, s) in o.samples {
            if self.samples.len() < 6 {
                self.samples.push((w, s));
            }
        }
    }
}

pub struct RunCfg {
    pub tier: Tier,
    pub seed: u64,
    /// override of the number of generated cases (for experiments)
    pub cases_override: Option<usize>,
}

struct Violation {
    fail: Fail,
    case: Value,
    origin: String,
}

fn write_replay(id: &str, v: &Violation) -> PathBuf {
    let dir = verif_dir().join("replays").join(id);
    let _ = std::fs::create_dir_all(&dir);
    let body = json!({
        "property": id,
        "sub": v.fail.sub,
        "msg": v.fail.msg,
        "origin": v.origin,
        "case": v.case,
    });
    let text = serde_json::to_string_pretty(&body).unwrap();
    let fp = fnv64(serde_json::to_string(&v.case).unwrap().as_bytes());
    let path = dir.join(format!("{:016x}.json", fp));
    std::fs::write(&path, text).expect("cannot write replay file");
    path
}

fn regress_files(id: &str) -> Vec<PathBuf> {
    let dir = verif_dir().join("replays").join("regress");
    let mut v: Vec<PathBuf> = std::fs::read_dir(&dir)
        .map(|rd| {
            rd.filter_map(|e| e.ok().map(|e| e.path()))
                .filter(|p| {
                    p.file_name()
                        .and_then(|n| n.to_str())
                        .map(|n| n.starts_with(&format!("{id}_")) && n.ends_with(".json"))
                        .unwrap_or(false)
                })
                .collect()
        })
        .unwrap_or_default();
    v.sort();
    v
}

pub fn load_case<C: DeserializeOwned>(path: &Path) -> Result<C, String> {
    let text = std::fs::read_to_string(path).map_err(|e| format!("{}: {e}", path.display()))?;
    let v: Value = serde_json::from_str(&text).map_err(|e| format!("{}: {e}", path.display()))?;
    let case = if v.get("case").is_some() { v["case"].clone() } else { v };
    serde_json::from_value(case).map_err(|e| format!("{}: case does not decode: {e}", path.display()))
}

/// Run one property; returns the process exit code.
pub fn run_property<P: Property>(p: &P, cfg: &RunCfg) -> i32 {
    let t0 = Instant::now();
    let id = p.id();
    let findings = load_findings();
    let mut total = Stats::default();
    let mut violations: Vec<Violation> = Vec::new();
    let mut extra: BTreeMap<String, Value> = BTreeMap::new();

    // 1. committed regression replays
    let mut n_regress = 0;
    for f in regress_files(id) {
        match load_case::<P::Case>(&f) {
            Ok(case) => {
                n_regress += 1;
                match checked(p, &case) {
                    Ok(o) => total.record(&case, &o),
                    Err(fail) => {
                        if let Some(k) = matching_known(&findings, id, &fail) {
                            *total.known_hits.entry(k.what.clone()).or_insert(0) += 1;
                        } else {
                            violations.push(Violation {
                                fail,
                                case: serde_json::to_value(&case).unwrap(),
                                origin: format!("regression replay {}", f.display()),
                            });
                        }
                    }
                }
            }
            Err(e) => {
                eprintln!("INTERNAL: cannot load regression replay: {e}");
                return 2;
            }
        }
    }
    extra.insert("regressions_replayed".into(), json!(n_regress));

    // 2. bounded-exhaustive scope, if any
    let mut exhaustive_scope: Option<String> = None;
    if violations.is_empty() {
        if let Some((desc, iter)) = p.enumerate(cfg.tier) {
            let stop = AtomicBool::new(false);
            let shared = Mutex::new(iter);
            let nshards = p.shards();
            let results: Vec<(Stats, Option<Violation>)> = std::thread::scope(|sc| {
                let handles: Vec<_> = (0..nshards)
                    .map(|_| {
                        sc.spawn(|| {
                            let mut st = Stats::default();
                            let mut viol = None;
                            loop {
                                if stop.load(SeqCst) {
                                    break;
                                }
                                // take a batch
                                let batch: Vec<P::Case> = {
                                    let mut it = shared.lock().unwrap();
                                    let mut b = Vec::with_capacity(256);
                                    for _ in 0..256 {
                                        match it.next() {
                                            Some(c) => b.push(c),
                                            None => break,
                                        }
                                    }
                                    b
                                };
                                if batch.is_empty() {
                                    break;
                                }
                                for case in batch {
                                    match checked(p, &case) {
                                        Ok(o) => st.record(&case, &o),
                                        Err(fail) => {
                                            if let Some(k) = matching_known(&findings, id, &fail) {
                                                *st.known_hits.entry(k.what.clone()).or_insert(0) += 1;
                                            } else {
                                                viol = Some(Violation {
                                                    fail,
                                                    case: serde_json::to_value(&case).unwrap(),
                                                    origin: "bounded-exhaustive enumeration".into(),
                                                });
                                                stop.store(true, SeqCst);
                                                break;
                                            }
                                        }
                                    }
                                }
                                if viol.is_some() {
                                    break;
                                }
                            }
                            (st, viol)
                        })
                    })
                    .collect();
                handles.into_iter().map(|h| h.join().expect("enumeration shard panicked")).collect()
            });
            let mut enumerated = 0;
            for (st, v) in results {
                enumerated += st.evaluations;
                total.merge(st);
                if let Some(v) = v {
                    violations.push(v);
                }
            }
            extra.insert("enumerated_cases".into(), json!(enumerated));
            extra.insert("enumerated_scope".into(), json!(desc));
            if violations.is_empty() {
                exhaustive_scope = Some(desc);
            }
        }
    }

    // 3. generated search (proptest), sharded
    let n_cases = cfg.cases_override.unwrap_or_else(|| p.cases(cfg.tier));
    if violations.is_empty() && n_cases > 0 {
        let nshards = p.shards().max(1);
        let per_shard = n_cases.div_ceil(nshards);
        let stop = AtomicBool::new(false);
        let results: Vec<(Stats, Option<Violation>)> = std::thread::scope(|sc| {
            let handles: Vec<_> = (0..nshards)
                .map(|shard| {
                    let stop = &stop;
                    let findings = &findings;
                    sc.spawn(move || {
                        let seed = splitmix64(cfg.seed ^ splitmix64(id_hash(id) ^ (shard as u64).wrapping_mul(0x1000_0001)));
                        let mut seed_bytes = [0u8; 32];
                        for i in 0..4 {
                            seed_bytes[i * 8..(i + 1) * 8].copy_from_slice(&splitmix64(seed.wrapping_add(i as u64)).to_le_bytes());
                        }
                        let _ = seed_bytes;
                        let config = Config {
                            cases: per_shard as u32,
                            rng_seed: RngSeed::Fixed(seed),
                            failure_persistence: None,
                            max_shrink_iters: p.max_shrink_iters(),
                            max_global_rejects: 1_000_000,
                            max_local_rejects: 1_000_000,
                            verbose: 0,
                            ..Config::default()
                        };
                        let mut runner = TestRunner::new(config);
                        let st = Mutex::new(Stats::default());
                        let failed = AtomicBool::new(false);
                        // the first failing case as generated (before shrinking): reported when the
                        // failure is not reproducible on the shrunk case (schedule-dependent defects)
                        let first_failure: Mutex<Option<(Value, Fail)>> = Mutex::new(None);
                        let strat = p.strategy(cfg.tier);
                        let res = runner.run(&strat, |case| {
                            if stop.load(SeqCst) && !failed.load(SeqCst) {
                                // another shard found a violation: finish quickly
                                return Ok(());
                            }
                            match checked(p, &case) {
                                Ok(o) => {
                                    if !failed.load(SeqCst) {
                                        st.lock().unwrap().record(&case, &o);
                                    }
                                    Ok(())
                                }
                                Err(fail) => {
                                    if let Some(k) = matching_known(findings, id, &fail) {
                                        if !failed.load(SeqCst) {
                                            let mut s = st.lock().unwrap();
                                            *s.known_hits.entry(k.what.clone()).or_insert(0) += 1;
                                        }
                                        return Ok(());
                                    }
                                    if !failed.swap(true, SeqCst) {
                                        *first_failure.lock().unwrap() = Some((serde_json::to_value(&case).unwrap_or(Value::Null), fail.clone()));
                                    }
                                    stop.store(true, SeqCst);
                                    Err(TestCaseError::fail(format!("{}: {}", fail.sub, fail.msg)))
                                }
                            }
                        });
                        let viol = match res {
                            Ok(()) => None,
                            Err(TestError::Fail(_reason, minimal)) => {
                                // re-run the minimal case to obtain its own failure description
                                match checked(p, &minimal) {
                                    Err(fail) => Some(Violation {
                                        fail,
                                        case: serde_json::to_value(&minimal).unwrap(),
                                        origin: format!("proptest shard {shard} seed {seed} (shrunk)"),
                                    }),
                                    Ok(_) => {
                                        // not reproducible on the shrunk case: report the case that failed first
                                        let (case, fail) = first_failure.lock().unwrap().take().unwrap_or((serde_json::to_value(&minimal).unwrap(), Fail::new("nondeterministic", "a generated case failed but neither it nor its shrunk form was recorded")));
                                        Some(Violation {
                                            fail: Fail::new(fail.sub, format!("{} [NOT DETERMINISTIC: the shrunk case passed when re-run, so the outcome depends on something outside the case (thread schedule, timing); this is the case as first generated and its replay may pass]", fail.msg)),
                                            case,
                                            origin: format!("proptest shard {shard} seed {seed} (unshrunk, non-deterministic failure)"),
                                        })
                                    }
                                }
                            }
                            Err(TestError::Abort(reason)) => Some(Violation {
                                fail: Fail::new("abort", format!("proptest aborted: {reason}")),
                                case: Value::Null,
                                origin: format!("proptest shard {shard}"),
                            }),
                        };
                        (st.into_inner().unwrap(), viol)
                    })
                })
                .collect();
            handles.into_iter().map(|h| h.join().expect("shard panicked")).collect()
        });
        for (st, v) in results {
            total.merge(st);
            if let Some(v) = v {
                if violations.is_empty() {
                    // lowest shard's failure is the one reported
                    violations.push(v);
                }
            }
        }
    }

    // 4. epilogue (not in child mode)
    let is_child = std::env::var("VPCHECK_CHILD").is_ok();
    if violations.is_empty() && !is_child {
        match catch(|| p.epilogue(cfg.tier, cfg.seed, &total.counters, &mut extra)) {
            Ok(Ok(())) => {}
            Ok(Err((fail, case))) => {
                if let Some(k) = matching_known(&findings, id, &fail) {
                    *total.known_hits.entry(k.what.clone()).or_insert(0) += 1;
                } else {
                    violations.push(Violation { fail, case, origin: "epilogue".into() });
                }
            }
            Err(text) => violations.push(Violation { fail: Fail::new("panic", text), case: Value::Null, origin: "epilogue".into() }),
        }
    }

    // internal "abort" failures are not verdicts
    if let Some(v) = violations.iter().find(|v| v.fail.sub == "abort") {
        eprintln!("INCONCLUSIVE: {}", v.fail.msg);
        return 2;
    }

    let wall = t0.elapsed().as_secs_f64();
    for (what, n) in &total.known_hits {
        println!("KNOWN-FINDING: property={id} {what} (hit {n} times, excluded from the search)");
    }
    let mut replay_paths = vec![];
    for v in &violations {
        let path = write_replay(id, v);
        println!("VIOLATION property={id} replay={}", path.display());
        println!("  sub-check: {}", v.fail.sub);
        println!("  message  : {}", v.fail.msg);
        println!("  origin   : {}", v.origin);
        replay_paths.push(path.display().to_string());
    }

    // evidence
    let samples: Vec<Value> = total.samples.iter().map(|(w, c)| json!({"why": w, "case": c})).collect();
    let mut coverage = serde_json::Map::new();
    coverage.insert("evaluations".into(), json!(total.evaluations));
    coverage.insert("distinct_nontrivial".into(), json!(total.nontrivial.len()));
    coverage.insert("rule".into(), json!(format!("{}{}", p.rule(), p.regimes())));
    coverage.insert("samples".into(), json!(samples));
    coverage.insert("classes".into(), json!(total.classes));
    coverage.insert("skipped_subchecks".into(), json!(total.skipped));
    coverage.insert("counters".into(), json!(total.counters));
    coverage.insert("observed_maxima".into(), json!(total.maxima));
    coverage.insert("excluded_known".into(), json!(total.known_hits));
    coverage.insert("shards".into(), json!(p.shards()));
    coverage.insert("generated_cases_requested".into(), json!(n_cases));
    if let Some(desc) = &exhaustive_scope {
        coverage.insert("exhaustive".into(), json!(true));
        coverage.insert("exhaustive_scope".into(), json!(desc));
    }
    for (k, v) in extra {
        coverage.insert(k, v);
    }
    if !replay_paths.is_empty() {
        coverage.insert("replays".into(), json!(replay_paths));
    }
    let evidence = json!({
        "property_id": id,
        "tier": cfg.tier.name(),
        "seed": cfg.seed,
        "level": p.level(),
        "coverage": Value::Object(coverage),
        "assumptions": p.assumptions(),
        "wall_s": wall,
        "violations": violations.len(),
    });
    let edir = verif_dir().join("evidence");
    let _ = std::fs::create_dir_all(&edir);
    let suffix = std::env::var("VPCHECK_EVIDENCE_SUFFIX").unwrap_or_default();
    std::fs::write(edir.join(format!("{id}{suffix}.json")), serde_json::to_string_pretty(&evidence).unwrap()).expect("cannot write evidence");

    println!(
        "{id} {}: evaluations={} distinct_nontrivial={} violations={} wall={:.1}s",
        cfg.tier.name(),
        total.evaluations,
        total.nontrivial.len(),
        violations.len(),
        wall
    );
    if !violations.is_empty() {
        return 1;
    }
    if total.evaluations == 0 || total.nontrivial.len() < 2 {
        eprintln!("INCONCLUSIVE: the run produced too few non-trivial cases to count as evidence");
        return 2;
    }
    0
}

/// re-execute one stored case without proptest (strict: known findings are not excused)
pub fn replay_property<P: Property>(p: &P, path: &Path) -> i32 {
    let id = p.id();
    let case: P::Case = match load_case(path) {
        Ok(c) => c,
        Err(e) => {
            eprintln!("cannot load replay: {e}");
            return 2;
        }
    };
    match checked(p, &case) {
        Ok(o) => {
            println!("replay {}: property {id} holds on this case (nontrivial={}, classes={:?})", path.display(), o.nontrivial, o.classes);
            0
        }
        Err(f) => {
            println!("VIOLATION property={id} replay={}", path.display());
            println!("  sub-check: {}", f.sub);
            println!("  message  : {}", f.msg);
            1
        }
    }
}

/// type-erased access for the binary
pub trait DynProperty: Send + Sync {
    fn id(&self) -> &'static str;
    fn run(&self, cfg: &RunCfg) -> i32;
    fn replay(&self, path: &Path) -> i32;
}
impl<P: Property> DynProperty for P {
    fn id(&self) -> &'static str {
        Property::id(self)
    }
    fn run(&self, cfg: &RunCfg) -> i32 {
        run_property(self, cfg)
    }
    fn replay(&self, path: &Path) -> i32 {
        replay_property(self, path)
    }
}

/// helper for strategies: monotone index map (shrinks towards the first alternative)
pub fn pick(u: u16, len: usize) -> usize {
    ((u as usize) * len) >> 16
}

pub fn boxed<S: Strategy + 'static>(s: S) -> BoxedStrategy<S::Value> {
    s.boxed()
}

/// Run the same property in the overflow-checked build of the harness (profile "checked":
/// overflow checks and debug assertions on, what a debug build of a user's program does).
/// The child writes evidence/<id>.checked.json; its verdict is folded into the parent's.
pub fn run_checked_profile(id: &str, tier: Tier, seed: u64, extra: &mut BTreeMap<String, Value>) -> Result<(), (Fail, Value)> {
    run_checked_profile_n(id, tier, seed, None, extra)
}

/// like run_checked_profile with an explicit number of generated cases for the child
pub fn run_checked_profile_n(id: &str, tier: Tier, seed: u64, cases: Option<usize>, extra: &mut BTreeMap<String, Value>) -> Result<(), (Fail, Value)> {
    let bin = match std::env::var("VPCHECK_CHECKED_BIN") {
        Ok(b) if Path::new(&b).exists() => b,
        _ => {
            extra.insert("checked_profile".into(), json!("not run: VPCHECK_CHECKED_BIN not set (use ./check)"));
            return Ok(());
        }
    };
    let mut cmd = std::process::Command::new(&bin);
    cmd.arg(id).arg("--tier").arg(tier.name());
    if let Some(n) = cases {
        cmd.arg("--cases").arg(n.to_string());
    }
    let outp = cmd
        .env("VERIF_SEED", seed.to_string())
        .env("VPCHECK_CHILD", "1")
        .env("VPCHECK_EVIDENCE_SUFFIX", ".checked")
        .output()
        .map_err(|e| (Fail::new("abort", format!("cannot run {bin}: {e}")), Value::Null))?;
    let stdout = String::from_utf8_lossy(&outp.stdout).to_string();
    let code = outp.status.code().unwrap_or(2);
    let child_ev: Value = std::fs::read_to_string(verif_dir().join("evidence").join(format!("{id}.checked.json")))
        .ok()
        .and_then(|s| serde_json::from_str(&s).ok())
        .unwrap_or(Value::Null);
    extra.insert(
        "checked_profile".into(),
        json!({
            "binary": bin,
            "exit": code,
            "evaluations": child_ev["coverage"]["evaluations"],
            "distinct_nontrivial": child_ev["coverage"]["distinct_nontrivial"],
            "classes": child_ev["coverage"]["classes"],
        }),
    );
    match code {
        0 => Ok(()),
        1 => {
            // relay the child's violation
            let replay = stdout.lines().find_map(|l| l.strip_prefix("VIOLATION ").and_then(|r| r.split("replay=").nth(1)).map(|s| s.trim().to_string()));
            let (sub, msg, case) = match replay.and_then(|p| std::fs::read_to_string(p).ok()).and_then(|s| serde_json::from_str::<Value>(&s).ok()) {
                Some(v) => (v["sub"].as_str().unwrap_or("?").to_string(), v["msg"].as_str().unwrap_or("?").to_string(), v["case"].clone()),
                None => ("?".into(), stdout.clone(), Value::Null),
            };
            Err((Fail::new(sub, format!("[overflow-checked build] {msg}")), case))
        }
        _ => Err((Fail::new("abort", format!("overflow-checked build of the harness did not reach a verdict (exit {code}): {}", stdout.lines().last().unwrap_or(""))), Value::Null)),
    }
}

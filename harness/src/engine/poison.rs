//! Heap poisoning for property C10: a global allocator that fills every fresh (or grown)
//! allocation with a byte pattern selected per "poison domain". A domain is one shard thread
//! plus the rayon pools created for it; the pattern is an AtomicU8 shared by these threads.
use std::alloc::{GlobalAlloc, Layout, System};
use std::cell::{Cell, RefCell};
use std::collections::HashMap;
use std::sync::atomic::{AtomicU8, Ordering::Relaxed};

pub struct PoisonAlloc;

thread_local! {
    static SRC: Cell<*const AtomicU8> = const { Cell::new(std::ptr::null()) };
}

#[inline]
fn current() -> u8 {
    SRC.try_with(|s| {
        let p = s.get();
        if p.is_null() {
            0
        } else {
            // SAFETY: the pointer refers to a leaked (never freed) AtomicU8
            unsafe { (*p).load(Relaxed) }
        }
    })
    .unwrap_or(0)
}

unsafe impl GlobalAlloc for PoisonAlloc {
    unsafe fn alloc(&self, layout: Layout) -> *mut u8 {
        let p = System.alloc(layout);
        if !p.is_null() {
            let pat = current();
            if pat != 0 {
                std::ptr::write_bytes(p, pat, layout.size());
            }
        }
        p
    }
    unsafe fn dealloc(&self, ptr: *mut u8, layout: Layout) {
        System.dealloc(ptr, layout)
    }
    unsafe fn alloc_zeroed(&self, layout: Layout) -> *mut u8 {
        System.alloc_zeroed(layout)
    }
    unsafe fn realloc(&self, ptr: *mut u8, layout: Layout, new_size: usize) -> *mut u8 {
        let old = layout.size();
        let p = System.realloc(ptr, layout, new_size);
        if !p.is_null() && new_size > old {
            let pat = current();
            if pat != 0 {
                std::ptr::write_bytes(p.add(old), pat, new_size - old);
            }
        }
        p
    }
}

thread_local! {
    static DOMAIN: Cell<*const AtomicU8> = const { Cell::new(std::ptr::null()) };
    static POOLS: RefCell<HashMap<usize, &'static rayon::ThreadPool>> = RefCell::new(HashMap::new());
}

/// the poison domain of the calling thread (created on first use, leaked)
fn domain() -> &'static AtomicU8 {
    DOMAIN.with(|d| {
        if d.get().is_null() {
            let a: &'static AtomicU8 = Box::leak(Box::new(AtomicU8::new(0)));
            d.set(a as *const AtomicU8);
            SRC.with(|s| s.set(a as *const AtomicU8));
        }
        // SAFETY: leaked
        unsafe { &*d.get() }
    })
}

/// run f with every fresh allocation of this thread's domain filled with `pattern`
pub fn with_pattern<R>(pattern: u8, f: impl FnOnce() -> R) -> R {
    let d = domain();
    let prev = d.swap(pattern, Relaxed);
    struct Reset(&'static AtomicU8, u8);
    impl Drop for Reset {
        fn drop(&mut self) {
            self.0.store(self.1, Relaxed);
        }
    }
    let _g = Reset(d, prev);
    f()
}

/// a rayon pool with `n` workers that belongs to the calling thread's poison domain
/// (cached per thread and size, never torn down)
pub fn pool(n: usize) -> &'static rayon::ThreadPool {
    let d = domain() as *const AtomicU8 as usize;
    POOLS.with(|p| {
        let mut p = p.borrow_mut();
        *p.entry(n).or_insert_with(|| {
            let pool = rayon::ThreadPoolBuilder::new()
                .num_threads(n)
                .start_handler(move |_| {
                    SRC.with(|s| s.set(d as *const AtomicU8));
                })
                .build()
                .expect("cannot build rayon pool");
            Box::leak(Box::new(pool))
        })
    })
}

/// the value an element of type T has when all its bytes equal the pattern
pub fn poison_value_f64(pattern: u8) -> f64 {
    f64::from_bits(u64::from_ne_bytes([pattern; 8]))
}
pub fn poison_value_f32(pattern: u8) -> f32 {
    f32::from_bits(u32::from_ne_bytes([pattern; 4]))
}

//! Watched worker process (property C08): see c08.rs. Filled in later.
pub fn worker_main() -> i32 {
    2
}

//! Watched worker process (property C08).
//!
//! The parent generates and shrinks cases with proptest; each case is sent as one JSON line to
//! a child `vpcheck --worker`, which executes it and answers with one JSON line. The parent
//! polls the child's CPU time (/proc/<pid>/stat, load independent). Over budget => kill,
//! respawn, outcome Hang. A panic inside the child is caught there and reported as a failure;
//! a child that dies (abort, stack overflow, OOM kill) is reported as Died.
use serde_json::Value;
use std::io::{BufRead, BufReader, Write};
use std::process::{Child, ChildStdin, Command, Stdio};
use std::sync::mpsc::{channel, Receiver, RecvTimeoutError};
use std::time::{Duration, Instant};

pub enum WorkerResult {
    /// the child's answer line
    Done(Value),
    /// CPU budget exceeded (seconds used)
    Hang(f64),
    /// the child terminated without answering
    Died(String),
}

pub struct Worker {
    child: Child,
    stdin: ChildStdin,
    rx: Receiver<String>,
}

fn cpu_seconds(pid: u32) -> Option<f64> {
    let s = std::fs::read_to_string(format!("/proc/{pid}/stat")).ok()?;
    // fields after the closing parenthesis of the command name
    let rest = &s[s.rfind(')')? + 2..];
    let f: Vec<&str> = rest.split_whitespace().collect();
    let utime: f64 = f.get(11)?.parse().ok()?;
    let stime: f64 = f.get(12)?.parse().ok()?;
    let hz = unsafe { libc::sysconf(libc::_SC_CLK_TCK) } as f64;
    Some((utime + stime) / hz)
}

impl Worker {
    pub fn spawn() -> std::io::Result<Worker> {
        let exe = std::env::current_exe()?;
        let mut child = Command::new(exe).arg("--worker").stdin(Stdio::piped()).stdout(Stdio::piped()).stderr(Stdio::null()).spawn()?;
        let stdin = child.stdin.take().unwrap();
        let stdout = child.stdout.take().unwrap();
        let (tx, rx) = channel();
        std::thread::spawn(move || {
            let r = BufReader::new(stdout);
            for line in r.lines() {
                match line {
                    Ok(l) => {
                        if tx.send(l).is_err() {
                            break;
                        }
                    }
                    Err(_) => break,
                }
            }
        });
        Ok(Worker { child, stdin, rx })
    }

    /// send one request line, wait for the answer under a CPU-time budget (seconds)
    pub fn run(&mut self, request: &str, cpu_budget: f64) -> WorkerResult {
        let pid = self.child.id();
        let cpu0 = cpu_seconds(pid).unwrap_or(0.0);
        if writeln!(self.stdin, "{request}").and_then(|_| self.stdin.flush()).is_err() {
            return WorkerResult::Died("cannot write to the worker".into());
        }
        let t0 = Instant::now();
        loop {
            match self.rx.recv_timeout(Duration::from_millis(20)) {
                Ok(line) => {
                    return match serde_json::from_str::<Value>(&line) {
                        Ok(v) => WorkerResult::Done(v),
                        Err(e) => WorkerResult::Died(format!("unparsable answer {line:?}: {e}")),
                    }
                }
                Err(RecvTimeoutError::Timeout) => {
                    let used = cpu_seconds(pid).map(|c| c - cpu0);
                    match used {
                        Some(u) if u > cpu_budget => {
                            self.kill();
                            return WorkerResult::Hang(u);
                        }
                        None => {
                            // process gone
                            let st = self.child.try_wait().ok().flatten().map(|s| s.to_string()).unwrap_or_else(|| "unknown".into());
                            return WorkerResult::Died(format!("worker exited: {st}"));
                        }
                        _ => {}
                    }
                    // safety net against a child that neither computes nor answers
                    if t0.elapsed().as_secs_f64() > 30.0 * cpu_budget + 60.0 {
                        self.kill();
                        return WorkerResult::Died("worker neither answered nor used CPU time (stalled)".into());
                    }
                }
                Err(RecvTimeoutError::Disconnected) => {
                    let st = self.child.wait().map(|s| s.to_string()).unwrap_or_else(|_| "unknown".into());
                    return WorkerResult::Died(format!("worker exited: {st}"));
                }
            }
        }
    }

    pub fn kill(&mut self) {
        let _ = self.child.kill();
        let _ = self.child.wait();
    }
}

impl Drop for Worker {
    fn drop(&mut self) {
        self.kill();
    }
}

/// child side: read requests, execute, answer
pub fn worker_main() -> i32 {
    let stdin = std::io::stdin();
    let stdout = std::io::stdout();
    for line in stdin.lock().lines() {
        let Ok(line) = line else { break };
        if line.trim().is_empty() {
            continue;
        }
        let answer = crate::props::c08::worker_execute(&line);
        let mut out = stdout.lock();
        if writeln!(out, "{answer}").and_then(|_| out.flush()).is_err() {
            break;
        }
    }
    0
}

//! serde helpers: floats are written as strings in Rust's shortest round-trip notation
//! ("1.5", "-0.0", "NaN", "inf", "-inf") so that replay files reproduce the exact bits
//! of every finite value and can carry the IEEE specials that JSON numbers cannot.

fn enc(v: f64) -> String {
    format!("{:?}", v)
}
fn dec(s: &str) -> Result<f64, String> {
    s.parse::<f64>().map_err(|e| format!("bad float {s:?}: {e}"))
}

pub mod one {
    use serde::{Deserialize, Deserializer, Serializer};
    pub fn serialize<S: Serializer>(v: &f64, s: S) -> Result<S::Ok, S::Error> {
        s.serialize_str(&super::enc(*v))
    }
    pub fn deserialize<'de, D: Deserializer<'de>>(d: D) -> Result<f64, D::Error> {
        let s = String::deserialize(d)?;
        super::dec(&s).map_err(serde::de::Error::custom)
    }
}

pub mod opt {
    use serde::{Deserialize, Deserializer, Serializer};
    pub fn serialize<S: Serializer>(v: &Option<f64>, s: S) -> Result<S::Ok, S::Error> {
        match v {
            Some(v) => s.serialize_some(&super::enc(*v)),
            None => s.serialize_none(),
        }
    }
    pub fn deserialize<'de, D: Deserializer<'de>>(d: D) -> Result<Option<f64>, D::Error> {
        let s = Option::<String>::deserialize(d)?;
        match s {
            Some(s) => super::dec(&s).map(Some).map_err(serde::de::Error::custom),
            None => Ok(None),
        }
    }
}

pub mod vec {
    use serde::ser::SerializeSeq;
    use serde::{Deserialize, Deserializer, Serializer};
    pub fn serialize<S: Serializer>(v: &[f64], s: S) -> Result<S::Ok, S::Error> {
        let mut seq = s.serialize_seq(Some(v.len()))?;
        for x in v {
            seq.serialize_element(&super::enc(*x))?;
        }
        seq.end()
    }
    pub fn deserialize<'de, D: Deserializer<'de>>(d: D) -> Result<Vec<f64>, D::Error> {
        let s = Vec::<String>::deserialize(d)?;
        s.iter()
            .map(|s| super::dec(s).map_err(serde::de::Error::custom))
            .collect()
    }
}

pub mod optvec {
    use serde::{Deserialize, Deserializer, Serializer};
    pub fn serialize<S: Serializer>(v: &Option<Vec<f64>>, s: S) -> Result<S::Ok, S::Error> {
        match v {
            Some(v) => {
                let strs: Vec<String> = v.iter().map(|x| super::enc(*x)).collect();
                s.serialize_some(&strs)
            }
            None => s.serialize_none(),
        }
    }
    pub fn deserialize<'de, D: Deserializer<'de>>(d: D) -> Result<Option<Vec<f64>>, D::Error> {
        let s = Option::<Vec<String>>::deserialize(d)?;
        match s {
            Some(v) => v
                .iter()
                .map(|s| super::dec(s).map_err(serde::de::Error::custom))
                .collect::<Result<Vec<f64>, _>>()
                .map(Some),
            None => Ok(None),
        }
    }
}

pub mod vecvec {
    use serde::{Deserialize, Deserializer, Serializer};
    pub fn serialize<S: Serializer>(v: &[Vec<f64>], s: S) -> Result<S::Ok, S::Error> {
        let strs: Vec<Vec<String>> = v
            .iter()
            .map(|r| r.iter().map(|x| super::enc(*x)).collect())
            .collect();
        s.collect_seq(strs.iter())
    }
    pub fn deserialize<'de, D: Deserializer<'de>>(d: D) -> Result<Vec<Vec<f64>>, D::Error> {
        let s = Vec::<Vec<String>>::deserialize(d)?;
        s.iter()
            .map(|r| {
                r.iter()
                    .map(|s| super::dec(s).map_err(serde::de::Error::custom))
                    .collect::<Result<Vec<f64>, _>>()
            })
            .collect()
    }
}

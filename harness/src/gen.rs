//! Shared generators (proptest strategies) and the ProblemCase they produce.
use crate::adapt::{build_problem, Build, Prob};
use crate::engine::pick;
use crate::fl;
use crate::models::{builder_model, Ctl, HandModel};
use crate::spec::{Kind, ModelSpec, Term};
use crate::Sc;
use nalgebra::DMatrix;
use proptest::prelude::*;
use serde::{Deserialize, Serialize};
use std::sync::Arc;

// ---------------------------------------------------------------------------------------
// deterministic noise: xoshiro256** seeded by splitmix64, Box-Muller

#[derive(Clone)]
pub struct Rng64 {
    s: [u64; 4],
}
impl Rng64 {
    pub fn new(seed: u64) -> Rng64 {
        let mut x = seed;
        let mut s = [0u64; 4];
        for v in s.iter_mut() {
            x = x.wrapping_add(0x9e37_79b9_7f4a_7c15);
            let mut z = x;
            z = (z ^ (z >> 30)).wrapping_mul(0xbf58_476d_1ce4_e5b9);
            z = (z ^ (z >> 27)).wrapping_mul(0x94d0_49bb_1331_11eb);
            *v = z ^ (z >> 31);
        }
        Rng64 { s }
    }
    pub fn next_u64(&mut self) -> u64 {
        let r = self.s[1].wrapping_mul(5).rotate_left(7).wrapping_mul(9);
        let t = self.s[1] << 17;
        self.s[2] ^= self.s[0];
        self.s[3] ^= self.s[1];
        self.s[1] ^= self.s[2];
        self.s[0] ^= self.s[3];
        self.s[2] ^= t;
        self.s[3] = self.s[3].rotate_left(45);
        r
    }
    /// uniform in (0,1)
    pub fn uniform(&mut self) -> f64 {
        ((self.next_u64() >> 11) as f64 + 0.5) / (1u64 << 53) as f64
    }
    pub fn gauss(&mut self) -> f64 {
        let u1 = self.uniform();
        let u2 = self.uniform();
        (-2.0 * u1.ln()).sqrt() * (2.0 * std::f64::consts::PI * u2).cos()
    }
}

// ---------------------------------------------------------------------------------------
// model specs

#[derive(Clone, Copy, Debug)]
pub struct SpecCfg {
    pub max_m: usize,
    pub max_p: usize,
    /// probability (in 1/16) of an invariant term at each position
    pub invariant_16: u16,
    /// allow two terms with identical kind and bindings (exactly dependent columns)
    pub allow_duplicates: bool,
    /// generate specs in other units of x (ModelSpec::unit_exp)
    pub units: bool,
}

impl Default for SpecCfg {
    fn default() -> Self {
        SpecCfg { max_m: 6, max_p: 6, invariant_16: 4, allow_duplicates: true, units: true }
    }
}

/// raw random material -> wellformed ModelSpec (construction, no rejection)
pub fn spec_from_raw(cfg: SpecCfg, m_pick: u16, kinds: &[(u16, u16)], p_pick: u16, slots: &[u16], dup: u16) -> ModelSpec {
    // occasionally (1/16) more basis functions than the usual bound (up to max_m + 6)
    // (1/256: a large model, 13..24 basis functions and up to 40 parameters — more Jacobian
    // columns than the 16 workers of the default pool)
    let huge = cfg.allow_duplicates && m_pick & 0xFF == 0xFF;
    let m = if huge {
        13 + pick(m_pick.rotate_left(4), 12)
    } else if cfg.allow_duplicates && m_pick & 0xF == 0xF {
        cfg.max_m + 1 + pick(m_pick, 6)
    } else {
        1 + pick(m_pick, cfg.max_m)
    };
    let big = m > cfg.max_m;
    let mut ks: Vec<Kind> = (0..m)
        .map(|j| {
            let (a, b) = kinds[j % kinds.len()];
            if pick(a, 16) < cfg.invariant_16 as usize {
                Kind::INVARIANT[pick(b, 3)]
            } else {
                Kind::PARAMETRIC[pick(b, 6)]
            }
        })
        .collect();
    if ks.iter().all(|k| k.arity() == 0) {
        ks[0] = Kind::Exp;
    }
    let max_arity = ks.iter().map(|k| k.arity()).max().unwrap();
    let total: usize = ks.iter().map(|k| k.arity()).sum();
    let p_hi = total.min(if huge { 40 } else if big { cfg.max_p + 4 } else { cfg.max_p }).max(max_arity);
    let p = max_arity + pick(p_pick, p_hi - max_arity + 1);
    // slots in term order
    let mut terms: Vec<Term> = ks.iter().map(|&k| Term { kind: k, args: vec![usize::MAX; k.arity()] }).collect();
    let slot_ids: Vec<(usize, usize)> =
        terms.iter().enumerate().flat_map(|(j, t)| (0..t.kind.arity()).map(move |a| (j, a))).collect();
    // pseudo-permutation of the slots driven by `slots`
    let mut order: Vec<usize> = (0..slot_ids.len()).collect();
    for i in 0..order.len() {
        let r = i + pick(slots[i % slots.len()], order.len() - i);
        order.swap(i, r);
    }
    // phase 1: cover every parameter (distinct parameters, so no clash inside a term)
    let mut next_param = 0;
    for &si in &order {
        if next_param >= p {
            break;
        }
        let (j, a) = slot_ids[si];
        terms[j].args[a] = next_param;
        next_param += 1;
    }
    // phase 2: remaining slots get any parameter not yet used by their term
    for (n, &si) in order.iter().enumerate() {
        let (j, a) = slot_ids[si];
        if terms[j].args[a] != usize::MAX {
            continue;
        }
        let free: Vec<usize> = (0..p).filter(|q| !terms[j].args.contains(q)).collect();
        let c = free[pick(slots[(n + 7) % slots.len()], free.len())];
        terms[j].args[a] = c;
    }
    let mut spec = ModelSpec { p, terms, unit_exp: 0 };
    // deliberate exact duplicate of a parametric term (rank deficiency by construction)
    if cfg.allow_duplicates && pick(dup, 16) == 0 && (spec.terms.len() < cfg.max_m || big) {
        if let Some(t) = spec.terms.iter().find(|t| t.kind.arity() > 0).cloned() {
            spec.terms.push(t);
        }
    }
    // units of x (1/8 of the unit-consistent specs): see ModelSpec::unit_exp
    if cfg.units && dup & 0x70 == 0x70 && spec.unit_consistent() {
        spec.unit_exp = [-9i8, -6, -3, 3, 6, 9, -9, 9][pick(dup.rotate_left(4), 8)];
    }
    debug_assert!(spec.is_wellformed(), "{spec:?}");
    spec
}

pub fn spec_strategy(cfg: SpecCfg) -> impl Strategy<Value = ModelSpec> {
    (
        any::<u16>(),
        proptest::collection::vec((any::<u16>(), any::<u16>()), 6),
        any::<u16>(),
        proptest::collection::vec(any::<u16>(), 16),
        any::<u16>(),
    )
        .prop_map(move |(m, kinds, p, slots, dup)| spec_from_raw(cfg, m, &kinds, p, &slots, dup))
}

// ---------------------------------------------------------------------------------------
// problem cases

#[derive(Clone, Debug, Serialize, Deserialize)]
pub struct ProblemCase {
    pub spec: ModelSpec,
    #[serde(with = "fl::vec")]
    pub x: Vec<f64>,
    /// initial nonlinear parameters
    #[serde(with = "fl::vec")]
    pub alpha: Vec<f64>,
    /// S columns of N observations
    #[serde(with = "fl::vecvec")]
    pub y: Vec<Vec<f64>>,
    #[serde(with = "fl::optvec")]
    pub w: Option<Vec<f64>>,
    #[serde(with = "fl::opt")]
    pub eps: Option<f64>,
    pub f32: bool,
    /// hand-written model (else builder-made)
    pub hand: bool,
    pub par: bool,
    pub mrhs: bool,
    pub reverse_derivs: bool,
}

impl ProblemCase {
    pub fn n(&self) -> usize {
        self.x.len()
    }
    pub fn s(&self) -> usize {
        self.y.len()
    }
    /// class labels of the shape regime: units of x, long data, many right-hand sides
    pub fn regime(&self) -> Vec<String> {
        let mut v = regime_of(&self.spec, self.x.len(), self.y.len());
        let mags: Vec<f64> = self.y.iter().map(|c| c.iter().fold(0.0f64, |m, x| m.max(x.abs()))).collect();
        let (lo, hi) = (mags.iter().cloned().fold(f64::INFINITY, f64::min), mags.iter().cloned().fold(0.0, f64::max));
        if hi > 0.0 && lo > 0.0 && hi / lo > 1e6 {
            v.push("y-units:mixed-across-columns".to_string());
        } else if hi > 1e4 {
            v.push("y-units:large".to_string());
        } else if hi > 0.0 && hi < 1e-4 {
            v.push("y-units:small".to_string());
        }
        v
    }
    pub fn flavour(&self) -> String {
        format!(
            "{}/{}/{}/{}",
            if self.f32 { "f32" } else { "f64" },
            if self.hand { "hand" } else { "builder" },
            if self.par { "par" } else { "seq" },
            if self.mrhs { "mrhs" } else { "srhs" }
        )
    }
    pub fn weight_class(&self) -> &'static str {
        match &self.w {
            None => "w:none",
            Some(w) if w.iter().all(|v| *v == 1.0) => "w:ones",
            Some(w) if w.iter().any(|v| *v == 0.0) => "w:zeros",
            Some(w) if w.iter().all(|v| v.abs() < 1e-6) => "w:tiny",
            Some(w) if w.iter().all(|v| v.abs() > 1e8) => "w:huge",
            Some(w) if w.iter().any(|v| *v < 0.0) => "w:negative",
            Some(_) => "w:positive",
        }
    }
    pub fn xs<T: Sc>(&self) -> Vec<T> {
        self.x.iter().map(|v| T::of(*v)).collect()
    }
    pub fn alphas<T: Sc>(&self) -> Vec<T> {
        self.alpha.iter().map(|v| T::of(*v)).collect()
    }
    pub fn ymat<T: Sc>(&self) -> DMatrix<T> {
        let n = self.n();
        DMatrix::from_fn(n, self.s(), |i, j| T::of(self.y[j][i]))
    }
    pub fn build_cfg<T: Sc>(&self) -> Build<T> {
        Build {
            y: self.ymat(),
            w: self.w.as_ref().map(|w| w.iter().map(|v| T::of(*v)).collect()),
            eps: self.eps.map(T::of),
            mrhs: self.mrhs,
            par: self.par,
        }
    }
    /// worker count of the rayon pool a parallel case runs in: a pure function of the shape
    pub fn pool_size(&self) -> Option<usize> {
        pool_size_for(self.par, self.x.len(), self.spec.p, self.y.len())
    }
    /// build the problem of this case's flavour at parameters `alpha` (None = the case's own)
    pub fn build_at<T: Sc>(&self, alpha: Option<&[T]>, ctl: Option<Arc<Ctl>>) -> Result<Box<dyn Prob<T>>, String> {
        self.build_with(alpha, ctl, None)
    }
    /// like build_at, with a control block for the closures of builder-made models
    pub fn build_with<T: Sc>(&self, alpha: Option<&[T]>, ctl: Option<Arc<Ctl>>, bfault: Option<Arc<crate::models::BFault>>) -> Result<Box<dyn Prob<T>>, String> {
        let x: Vec<T> = self.xs();
        let a: Vec<T> = match alpha {
            Some(a) => a.to_vec(),
            None => self.alphas(),
        };
        let bd = self.build_cfg::<T>();
        if self.hand {
            let model = match ctl {
                Some(c) => HandModel::with_ctl(&self.spec, &x, &a, c),
                None => HandModel::new(&self.spec, &x, &a),
            };
            build_problem(model, &bd)
        } else {
            let model = builder_model(&self.spec, &x, &a, bfault, self.reverse_derivs).map_err(|e| format!("model builder: {e:?}"))?;
            build_problem(model, &bd)
        }
    }
    pub fn build<T: Sc>(&self) -> Result<Box<dyn Prob<T>>, String> {
        self.build_at::<T>(None, None)
    }
}

#[derive(Clone, Copy, Debug)]
pub struct CaseCfg {
    pub spec: SpecCfg,
    pub max_n: usize,
    pub max_s: usize,
    /// generate alpha collisions (equal values for parameters of the same role)
    pub collisions: bool,
    pub allow_f32: bool,
    pub allow_par: bool,
    /// weight classes enabled
    pub weights: bool,
    pub eps: bool,
}
impl Default for CaseCfg {
    fn default() -> Self {
        CaseCfg { spec: SpecCfg::default(), max_n: 40, max_s: 5, collisions: true, allow_f32: true, allow_par: true, weights: true, eps: true }
    }
}

/// x values on [0,10]: grid / random sorted / random unsorted / with duplicates
pub fn x_from_raw(kind: u16, n: usize, us: &[u16]) -> Vec<f64> {
    let u = |i: usize| us[i % us.len()] as f64 / 65536.0;
    match pick(kind, 4) {
        0 => (0..n).map(|i| if n == 1 { 0.5 } else { 10.0 * i as f64 / (n - 1) as f64 }).collect(),
        1 => {
            let mut v: Vec<f64> = (0..n).map(|i| 10.0 * u(i)).collect();
            v.sort_by(|a, b| a.partial_cmp(b).unwrap());
            v
        }
        2 => (0..n).map(|i| 10.0 * u(i)).collect(),
        _ => (0..n).map(|i| (10.0 * u(i / 2 * 2) * 4.0).round() / 4.0).collect(),
    }
}

/// collide: 0 = independent values; 1 = exact collision (second parameter of some role equals
/// the first one of that role: exactly dependent columns for equal kinds); 2 = near collision
/// (relative offset 10^-U(3,15.5): a singular value anywhere between the rounding level of f64 and a user threshold)
pub fn alpha_tame(spec: &ModelSpec, us: &[u16], collide: u8) -> Vec<f64> {
    let roles = spec.roles();
    let fac = spec.unit_factors();
    let mut a: Vec<f64> = roles.iter().enumerate().map(|(i, r)| r.tame(us[i % us.len()] as f64 / 65536.0) * fac[i]).collect();
    if collide > 0 {
        for i in 0..a.len() {
            for j in (i + 1)..a.len() {
                if roles[i] == roles[j] {
                    a[j] = if collide == 1 {
                        a[i]
                    } else {
                        let e = 10f64.powf(-3.0 - 12.5 * (us[(i + j) % us.len()] as f64 / 65536.0));
                        a[i] * (1.0 + e)
                    };
                    return a;
                }
            }
        }
    }
    a
}

/// weight vector by class: 0 none, 1 ones, 2 positive log-uniform 1e-3..1e3, 3 with zeros, 4 with negatives
pub fn weights_from_raw(class: u16, n: usize, us: &[u16]) -> Option<Vec<f64>> {
    let u = |i: usize| us[(i * 3 + 1) % us.len()] as f64 / 65536.0;
    let pos = |i: usize| 10f64.powf(-3.0 + 6.0 * u(i));
    match pick(class, 8) {
        0 | 1 => None,
        // all weights equal: ones, or another common value (a uniform weight is not a unit weight)
        2 => Some(vec![[1.0, 1.0, 2.0, 0.25, 50.0, 1.0, -1.0, 3.7][pick(us[5 % us.len()], 8)]; n]),
        3 | 4 => Some((0..n).map(pos).collect()),
        5 => Some((0..n).map(|i| 0.5 + 1.5 * u(i)).collect()),
        6 => Some((0..n).map(|i| if us[(i * 5 + 2) % us.len()] % 4 == 0 { 0.0 } else { pos(i) }).collect()),
        _ => Some((0..n).map(|i| if us[(i * 7 + 3) % us.len()] % 3 == 0 { -pos(i) } else { pos(i) }).collect()),
    }
}

pub fn eps_from_raw(class: u16, u: u16, sign: bool) -> Option<f64> {
    match pick(class, 8) {
        0..=4 => None,
        5 | 6 => {
            let e = 10f64.powf(-12.0 + 10.0 * (u as f64 / 65536.0));
            Some(if sign { -e } else { e })
        }
        _ => {
            if u % 8 == 0 {
                Some(0.0)
            } else {
                Some(1e-6)
            }
        }
    }
}

prop_compose! {
    /// raw material shared by the case strategies
    fn raw_case()(
        n_pick in any::<u16>(),
        s_pick in any::<u16>(),
        xkind in any::<u16>(),
        us in proptest::collection::vec(any::<u16>(), 48),
        ys in proptest::collection::vec(-5.0f64..5.0, 5 * 40),
        wclass in any::<u16>(),
        epsclass in any::<u16>(),
        epsu in any::<u16>(),
        flags in any::<u16>(),
        collide in any::<u16>(),
    ) -> (u16, u16, u16, Vec<u16>, Vec<f64>, u16, u16, u16, u16, u16) {
        (n_pick, s_pick, xkind, us, ys, wclass, epsclass, epsu, flags, collide)
    }
}

/// the general problem-case strategy: random observations (far from the model's range),
/// tame parameters, all flavours
pub fn case_strategy(cfg: CaseCfg) -> impl Strategy<Value = ProblemCase> {
    (spec_strategy(cfg.spec), raw_case()).prop_map(move |(spec, raw)| case_from_raw(cfg, spec, raw))
}

pub type RawCase = (u16, u16, u16, Vec<u16>, Vec<f64>, u16, u16, u16, u16, u16);

/// the pure construction behind `case_strategy` (also used by the fuzz targets)
pub fn case_from_raw(cfg: CaseCfg, spec: ModelSpec, raw: RawCase) -> ProblemCase {
    {
        let (n_pick, s_pick, xkind, us, ys, wclass, epsclass, epsu, flags, collide) = raw;
        let m = spec.m();
        // occasionally (1/16) many more samples, (1/32) many more right-hand sides than usual
        let n = if n_pick & 0xF == 0xF { m + cfg.max_n + pick(n_pick, 4 * cfg.max_n) } else { m + pick(n_pick, cfg.max_n.max(m) - m + 1) };
        // (1/256: very many right-hand sides, 32..101 — more than 16 per worker of a small pool)
        let s = if s_pick % 3 == 0 {
            1
        } else if s_pick & 0x1F == 0x1F && cfg.max_s > 1 {
            if (s_pick >> 5) & 7 == 7 {
                32 + pick(s_pick.rotate_left(8), 70)
            } else {
                cfg.max_s + 1 + pick(s_pick, 8)
            }
        } else {
            1 + pick(s_pick, cfg.max_s)
        };
        let unit = spec.unit();
        let x: Vec<f64> = x_from_raw(xkind, n, &us).into_iter().map(|v| v * unit).collect();
        let alpha = alpha_tame(&spec, &us[8..], if cfg.collisions { [1u8, 2, 2, 0, 0, 0, 0, 0][pick(collide, 8)] } else { 0 });
        let mrhs = s > 1 || flags & 0x101 == 0x101;
        // the raw material repeats after 5 columns: later columns are shifted so that they differ
        let y: Vec<Vec<f64>> = (0..s).map(|c| (0..n).map(|i| ys[(c * 40 + i) % ys.len()] + 0.013 * (c / 5) as f64).collect()).collect();
        // units of y (the low bits of `collide`; its high bits select the collision class):
        // 1/16 of the cases: all observations in other units (x 1e±6 .. 1e±18; f32: up to 1e±16);
        // 1/16 of the cases with several right-hand sides: every column in a unit of its own
        // (magnitudes spread over up to forty decades, each column comfortably inside the range of
        // the scalar type)
        let is_f32_y = cfg.allow_f32 && flags & 4 == 4 && flags & 64 == 64;
        let mut y = y;
        if collide & 0xF == 0xF {
            let exps: &[i32] = if is_f32_y { &[-16, -9, -6, 6, 9, 12] } else { &[-18, -12, -9, -6, 6, 9, 12, 18] };
            let f = 10f64.powi(exps[((collide >> 4) & 7) as usize % exps.len()]);
            for col in y.iter_mut() {
                for v in col.iter_mut() {
                    *v *= f;
                }
            }
        } else if collide & 0xF == 0xE && s > 1 {
            let span = if is_f32_y { 16 } else { 20 };
            for (c, col) in y.iter_mut().enumerate() {
                let e = (us[(3 * c + 1) % us.len()] as i32 % (2 * span + 1)) - span;
                let f = 10f64.powi(e);
                for v in col.iter_mut() {
                    *v *= f;
                }
            }
        }
        let is_f32 = cfg.allow_f32 && flags & 4 == 4 && flags & 64 == 64;
        let mut w = if cfg.weights { weights_from_raw(wclass, n, &us[16..]) } else { None };
        // 1/32 of the weighted cases: all weights tiny or huge (every singular value of W∘Phi far
        // below / above the absolute threshold: the threshold semantics become observable)
        if let Some(w) = w.as_mut() {
            if wclass & 0x1F == 0x1F {
                let f = if wclass & 0x20 == 0 { if is_f32 { 1e-10 } else { 1e-20 } } else { 1e12 };
                for v in w.iter_mut() {
                    *v *= f;
                }
            }
        }
        let eps = if cfg.eps { eps_from_raw(epsclass, epsu, flags & 2 == 2) } else { None };
        ProblemCase {
            spec,
            x,
            alpha,
            y,
            w,
            eps,
            f32: cfg.allow_f32 && flags & 4 == 4 && flags & 64 == 64,
            hand: flags & 8 == 8,
            par: cfg.allow_par && flags & 16 == 16,
            mrhs,
            reverse_derivs: flags & 32 == 32,
        }
    }
}

/// a list of further tame parameter vectors for update histories
pub fn alpha_list(spec: &ModelSpec, raws: &[Vec<u16>]) -> Vec<Vec<f64>> {
    raws.iter().map(|us| alpha_tame(spec, us, 0)).collect()
}

// ---------------------------------------------------------------------------------------
// certified model families (C05, C07 fits, C12-C14, C19)

/// an instance of one of the certified families: observations are generated by the model
/// itself at (alpha_true, c_true), plus optional Gaussian noise expanded from `noise_seed`
#[derive(Clone, Debug, Serialize, Deserialize)]
pub struct FamCase {
    /// 1 = K exponential decays (+ optional offset), 2 = Gaussian peak + decay + offset,
    /// 3 = single decay + offset
    pub family: u8,
    pub spec: ModelSpec,
    #[serde(with = "fl::vec")]
    pub x: Vec<f64>,
    #[serde(with = "fl::vec")]
    pub alpha_true: Vec<f64>,
    /// S columns of M coefficients
    #[serde(with = "fl::vecvec")]
    pub c_true: Vec<Vec<f64>>,
    #[serde(with = "fl::vec")]
    pub alpha_start: Vec<f64>,
    /// per-sample noise standard deviations (empty = noiseless)
    #[serde(with = "fl::vec")]
    pub sigma: Vec<f64>,
    pub noise_seed: u64,
    #[serde(with = "fl::optvec")]
    pub w: Option<Vec<f64>>,
    pub f32: bool,
    pub hand: bool,
    pub par: bool,
    pub mrhs: bool,
    /// amplitudes and noise were scaled by 10^y_unit_exp (class label only)
    #[serde(default)]
    pub y_unit_exp: i8,
}

/// pool sizes 1..5, 7 and 16 chosen by the shape (pure, so that replays are reproducible)
pub fn pool_size_for(par: bool, n: usize, p: usize, s: usize) -> Option<usize> {
    par.then(|| [2usize, 3, 1, 4, 16, 5, 7, 2][(n + 3 * p + 5 * s) % 8])
}

/// class label of the number of right-hand sides (exact up to 14, then a range)
pub fn s_label(s: usize) -> String {
    if s <= 14 {
        format!("S={s}")
    } else if s < 32 {
        "S=15..31".to_string()
    } else {
        "S=32..101".to_string()
    }
}

/// class labels shared by the evidence of all checks
pub fn regime_of(spec: &ModelSpec, n: usize, s: usize) -> Vec<String> {
    let mut v = vec![];
    if spec.unit_exp != 0 {
        v.push(format!("x-unit=1e{}", spec.unit_exp));
    }
    if n >= 1024 {
        v.push("long-data:N>=1024".to_string());
    } else if n > 100 {
        v.push("N>100".to_string());
    }
    if s >= 32 {
        v.push("S>=32".to_string());
    } else if s > 8 {
        v.push("S>8".to_string());
    }
    if spec.m() > 12 {
        v.push(format!("M>12{}", if spec.p > 16 { ",P>16" } else { "" }));
    } else if spec.m() > 6 {
        v.push("M>6".to_string());
    }
    v
}

impl FamCase {
    pub fn regime(&self) -> Vec<String> {
        let mut v = regime_of(&self.spec, self.x.len(), self.c_true.len());
        if self.y_unit_exp != 0 {
            v.push(format!("y-unit=1e{}", self.y_unit_exp));
        }
        v
    }
    /// family instances run in a small dedicated pool whatever their flavour (the statistics are
    /// computed after the problem was converted to its sequential form, by code that may or may
    /// not consult the ambient rayon pool)
    pub fn pool_size(&self) -> Option<usize> {
        pool_size_for(true, self.x.len(), self.spec.p, self.c_true.len())
    }
    pub fn n(&self) -> usize {
        self.x.len()
    }
    pub fn s(&self) -> usize {
        self.c_true.len()
    }
    /// noiseless model values at the truth, S columns of N
    pub fn clean(&self) -> Vec<Vec<f64>> {
        let m = self.spec.m();
        let cols: Vec<Vec<f64>> = (0..m).map(|j| self.spec.eval_col::<f64>(j, &self.x, &self.alpha_true)).collect();
        self.c_true.iter().map(|c| (0..self.n()).map(|i| (0..m).map(|j| c[j] * cols[j][i]).sum()).collect()).collect()
    }
    /// the noise realisation (deterministic function of noise_seed), S columns of N
    pub fn noise(&self) -> Vec<Vec<f64>> {
        if self.sigma.is_empty() {
            return vec![vec![0.0; self.n()]; self.s()];
        }
        let mut rng = Rng64::new(self.noise_seed);
        (0..self.s()).map(|_| (0..self.n()).map(|i| self.sigma[i] * rng.gauss()).collect()).collect()
    }
    /// Predicted relative standard deviation of every fitted nonlinear parameter, from the
    /// generating parameters, the known noise level and the weights alone (first-order theory of
    /// the weighted estimator at the truth): Cov(alpha_hat) = G^-1 (sum_s J_s^T W^2 Sigma J_s) G^-1
    /// with J_s = (I - P_A) W D c*_s the projected Jacobian of column s and G = sum_s J_s^T J_s.
    /// None if the instance is noiseless or singular at the truth. This is the oracle's measure of
    /// "identifiable at this noise level": nothing the code under test reports enters it.
    pub fn predicted_alpha_rel_sd(&self) -> Option<Vec<f64>> {
        use crate::oracle::linalg::{inv_gram_from_svd, svd, Mat};
        if self.sigma.is_empty() {
            return None;
        }
        let (n, m, p) = (self.n(), self.spec.m(), self.spec.p);
        let w: Vec<f64> = self.w.clone().unwrap_or_else(|| vec![1.0; n]);
        let mut phi = Mat::zeros(n, m);
        for j in 0..m {
            let col = self.spec.eval_col::<f64>(j, &self.x, &self.alpha_true);
            phi.col_mut(j).copy_from_slice(&col);
        }
        let a = phi.row_scale(&w);
        let sa = svd(&a);
        if !(sa.smin() > 1e-12 * sa.smax()) {
            return None;
        }
        // stacked projected Jacobian (S*N x P) and the same with rows scaled by w_i sigma_i
        let mut j_all = Mat::zeros(n * self.s(), p);
        let mut j_noise = Mat::zeros(n * self.s(), p);
        for (s, c) in self.c_true.iter().enumerate() {
            for k in 0..p {
                let mut v = vec![0.0; n];
                for j in 0..m {
                    let d = self.spec.deriv_col::<f64>(j, k, &self.x, &self.alpha_true);
                    for i in 0..n {
                        v[i] += w[i] * d[i] * c[j];
                    }
                }
                let vm = Mat::col_vec(&v);
                let jk = vm.sub(&sa.project_range(&vm, m));
                for i in 0..n {
                    j_all.set(i + s * n, k, jk.d[i]);
                    j_noise.set(i + s * n, k, jk.d[i] * w[i] * self.sigma[i]);
                }
            }
        }
        let sj = svd(&j_all);
        if !(sj.smin() > 1e-14 * sj.smax()) {
            return None;
        }
        let ginv = inv_gram_from_svd(&sj);
        let mid = j_noise.t().mul(&j_noise);
        let cov = ginv.mul(&mid).mul(&ginv);
        Some((0..p).map(|k| cov.at(k, k).max(0.0).sqrt() / self.alpha_true[k].abs()).collect())
    }
    pub fn observations(&self) -> Vec<Vec<f64>> {
        let (c, e) = (self.clean(), self.noise());
        c.iter().zip(&e).map(|(a, b)| a.iter().zip(b).map(|(u, v)| u + v).collect()).collect()
    }
    pub fn to_problem_case(&self) -> ProblemCase {
        ProblemCase {
            spec: self.spec.clone(),
            x: self.x.clone(),
            alpha: self.alpha_start.clone(),
            y: self.observations(),
            w: self.w.clone(),
            eps: None,
            f32: self.f32,
            hand: self.hand,
            par: self.par,
            mrhs: self.mrhs,
            reverse_derivs: false,
        }
    }
}

#[derive(Clone, Copy, Debug)]
pub struct FamCfg {
    pub max_s: usize,
    pub min_n: usize,
    pub max_n: usize,
    /// relative noise level range (RMS relative to the signal scale); (0,0) = noiseless only
    pub noise_lo: f64,
    pub noise_hi: f64,
    /// fraction (in 1/16) of noiseless instances
    pub noiseless_16: u16,
    /// relative distance of the start from the truth
    pub start_rel: f64,
    pub allow_f32: bool,
    /// weights: 0 = never, else classes none / positive with ratio <= 10
    pub weights: bool,
    /// heteroscedastic noise with weights = k / sigma_i (C19)
    pub calibrated_weights: bool,
    /// also generate families 4..8 (4: rate + damped cosine sharing the rate + offset; 5: one Gaussian
    /// peak, M < P; 6: two Gaussian peaks + offset; 7: Lorentzian on a linear background; 8: sine +
    /// offset) — used by the statistics checks, not certified for C05
    pub extra_families: bool,
    /// a quarter of the weighted instances get weights spanning 1e-3..1e3
    pub wide_weights: bool,
    /// largest number of decays in family 1
    pub max_decays: usize,
    /// other units of x for 15 % of the instances
    pub units: bool,
    /// 1 of 64 instances is a long data set (1024..5100 samples)
    pub long_data: bool,
}

pub fn family_from_raw(cfg: FamCfg, us: &[u16], seed: u64) -> FamCase {
    let mut cur = 0usize;
    let mut u = move || {
        let v = us[cur % us.len()] as f64 / 65536.0;
        cur += 1;
        v
    };
    let family = 1 + (u() * if cfg.extra_families { 8.0 } else { 3.0 }) as u8;
    let un = u();
    let n = if cfg.long_data && (un * 65536.0) as u32 % 64 == 63 { 1024 + (un * 4077.0) as usize } else { cfg.min_n + (un * (cfg.max_n - cfg.min_n + 1) as f64) as usize };
    let (spec, alpha_true, x): (ModelSpec, Vec<f64>, Vec<f64>) = match family {
        1 => {
            let k = (1 + (u() * 3.0) as usize).min(cfg.max_decays.max(1));
            let offset = u() < 0.5;
            let mut taus = vec![0.5 + 1.5 * u()];
            for _ in 1..k {
                let r = 3.0 + 2.0 * u();
                taus.push(taus.last().unwrap() * r);
            }
            let mut terms: Vec<Term> = (0..k).map(|i| Term { kind: Kind::Exp, args: vec![i] }).collect();
            if offset {
                terms.push(Term { kind: Kind::One, args: vec![] });
            }
            let xmax = (3.0 + 2.0 * u()) * taus[k - 1];
            // quadratically spaced samples: dense where the fast decays live
            let x = (0..n).map(|i| xmax * (i as f64 / (n - 1) as f64).powi(2)).collect();
            (ModelSpec { p: k, terms, unit_exp: 0 }, taus, x)
        }
        2 => {
            let mu = 3.0 + 4.0 * u();
            let sg = 0.5 + 1.0 * u();
            let tau = 1.0 + 3.0 * u();
            let terms = vec![Term { kind: Kind::Gauss, args: vec![0, 1] }, Term { kind: Kind::Exp, args: vec![2] }, Term { kind: Kind::One, args: vec![] }];
            let x = (0..n).map(|i| 10.0 * i as f64 / (n - 1) as f64).collect();
            (ModelSpec { p: 3, terms, unit_exp: 0 }, vec![mu, sg, tau], x)
        }
        4 => {
            let k = 0.2 + 0.6 * u();
            let b = 1.0 + 2.0 * u();
            let terms = vec![Term { kind: Kind::Rate, args: vec![0] }, Term { kind: Kind::DampedCos, args: vec![0, 1] }, Term { kind: Kind::One, args: vec![] }];
            let x = (0..n).map(|i| 10.0 * i as f64 / (n - 1) as f64).collect();
            (ModelSpec { p: 2, terms, unit_exp: 0 }, vec![k, b], x)
        }
        5 => {
            // a single Gaussian peak: fewer basis functions than nonlinear parameters (M=1, P=2)
            let mu = 3.0 + 4.0 * u();
            let sg = 0.7 + 1.3 * u();
            let terms = vec![Term { kind: Kind::Gauss, args: vec![0, 1] }];
            let x = (0..n).map(|i| 10.0 * i as f64 / (n - 1) as f64).collect();
            (ModelSpec { p: 2, terms, unit_exp: 0 }, vec![mu, sg], x)
        }
        6 => {
            // two separated Gaussian peaks + offset (M=3, P=4)
            let (m1, m2) = (2.0 + 2.0 * u(), 6.0 + 2.0 * u());
            let (s1, s2) = (0.5 + 0.7 * u(), 0.5 + 0.7 * u());
            let terms = vec![Term { kind: Kind::Gauss, args: vec![0, 1] }, Term { kind: Kind::Gauss, args: vec![2, 3] }, Term { kind: Kind::One, args: vec![] }];
            let x = (0..n).map(|i| 10.0 * i as f64 / (n - 1) as f64).collect();
            (ModelSpec { p: 4, terms, unit_exp: 0 }, vec![m1, s1, m2, s2], x)
        }
        7 => {
            // Lorentzian line on a linear background (M=3, P=2); the invariant x term comes first
            let mu = 3.0 + 4.0 * u();
            let g = 0.4 + 0.8 * u();
            let terms = vec![Term { kind: Kind::X, args: vec![] }, Term { kind: Kind::Lorentz, args: vec![0, 1] }, Term { kind: Kind::One, args: vec![] }];
            let x = (0..n).map(|i| 10.0 * i as f64 / (n - 1) as f64).collect();
            (ModelSpec { p: 2, terms, unit_exp: 0 }, vec![mu, g], x)
        }
        8 => {
            // sine with unknown frequency and phase + offset (M=2, P=2)
            let om = 0.8 + 1.7 * u();
            let ph = -1.0 + 2.0 * u();
            let terms = vec![Term { kind: Kind::One, args: vec![] }, Term { kind: Kind::Sine, args: vec![0, 1] }];
            let x = (0..n).map(|i| 10.0 * i as f64 / (n - 1) as f64).collect();
            (ModelSpec { p: 2, terms, unit_exp: 0 }, vec![om, ph], x)
        }
        _ => {
            let tau = 0.5 + 4.5 * u();
            let xmax = (3.0 + 3.0 * u()) * tau;
            let terms = vec![Term { kind: Kind::Exp, args: vec![0] }, Term { kind: Kind::One, args: vec![] }];
            let x = (0..n).map(|i| xmax * i as f64 / (n - 1) as f64).collect();
            (ModelSpec { p: 1, terms, unit_exp: 0 }, vec![tau], x)
        }
    };
    let m = spec.m();
    let s = if u() < 0.4 { 1 } else { 1 + (u() * cfg.max_s as f64) as usize };
    let c_true: Vec<Vec<f64>> = (0..s).map(|_| (0..m).map(|_| (0.5 + 4.5 * u()) * if u() < 0.3 { -1.0 } else { 1.0 }).collect()).collect();
    let mut alpha_start: Vec<f64> = alpha_true.iter().map(|a| a * (1.0 + cfg.start_rel * (2.0 * u() - 1.0))).collect();
    // a location parameter has no scale of its own: "near" means a fraction of the peak's width,
    // not of the position (3 % of mu = 7 is 40 % of sigma = 0.5 — seen on the unchanged tree: such a
    // start sends the optimizer into the valley where decay and offset merge)
    for t in &spec.terms {
        if matches!(t.kind, Kind::Gauss | Kind::Lorentz) {
            let (im, iw) = (t.args[0], t.args[1]);
            let rel = alpha_start[im] / alpha_true[im] - 1.0;
            alpha_start[im] = alpha_true[im] + rel * alpha_true[iw];
        }
    }
    let noiseless = (u() * 16.0) < cfg.noiseless_16 as f64 || cfg.noise_hi == 0.0;
    let flags = (u() * 65536.0) as u32;
    let mrhs = s > 1 || flags & 1 == 1;
    let mut case = FamCase {
        family,
        spec,
        x,
        alpha_true,
        c_true,
        alpha_start,
        sigma: vec![],
        noise_seed: seed,
        w: None,
        f32: cfg.allow_f32 && flags & 6 == 6,
        hand: flags & 8 == 8,
        par: flags & 16 == 16,
        mrhs,
        y_unit_exp: 0,
    };
    // signal scale
    let clean = case.clean();
    let scale = clean.iter().flat_map(|c| c.iter()).fold(0.0f64, |m, v| m.max(v.abs())).max(1e-3);
    if cfg.calibrated_weights {
        // heteroscedastic profile with ratio <= 10, weights proportional to 1/sigma_i, or none with constant sigma
        let level = scale * cfg.noise_lo * (cfg.noise_hi / cfg.noise_lo).powf(u());
        let hetero = u() < 0.6;
        let k = if u() < 0.5 { 1.0 } else { 0.25 + 3.75 * u() };
        let phase = u() * 6.0;
        let sig: Vec<f64> = (0..n).map(|i| if hetero { level * 10f64.powf(0.5 * ((i as f64 * 0.37 + phase).sin())) } else { level }).collect();
        // equal sigma: no weights, or (half of the cases) the uniform weights k / sigma
        let uniform_w = u() < 0.5;
        case.w = if hetero || uniform_w { Some(sig.iter().map(|s| k / s).collect()) } else { None };
        case.sigma = sig;
    } else {
        if !noiseless {
            let level = scale * cfg.noise_lo * (cfg.noise_hi / cfg.noise_lo).powf(u());
            case.sigma = vec![level; n];
        }
        if cfg.weights && u() < 0.5 {
            let span = if cfg.wide_weights && u() < 0.25 { 6.0 } else { 1.0 };
            let mut w: Vec<f64> = (0..n).map(|_| 10f64.powf(span * (u() - 0.5))).collect();
            // zero and negative weights (statistics generators only)
            if cfg.wide_weights && u() < 0.3 {
                for v in w.iter_mut() {
                    let r = u();
                    if r < 0.12 {
                        *v = 0.0;
                    } else if r < 0.3 {
                        *v = -*v;
                    }
                }
            }
            case.w = Some(w);
        }
    }
    // 1 of 64 instances (statistics generators only): data the model reproduces exactly — all
    // observations zero, or a constant that only the offset term carries — so that the residuals
    // and the reduced chi2 can be exactly 0.0 (the optimizer then stops with ResidualsZero)
    if cfg.wide_weights && u() < 1.0 / 64.0 {
        let keep_offset = u() < 0.5;
        for col in case.c_true.iter_mut() {
            for (j, v) in col.iter_mut().enumerate() {
                *v = if keep_offset && matches!(case.spec.terms[j].kind, Kind::One) { 2.0 } else { 0.0 };
            }
        }
        case.sigma = vec![];
    }
    // units of y (10 % of the instances): amplitudes, noise and (calibrated) weights in other units —
    // nano-amperes stored in amperes or counts of 1e12. The fit and every relative statistic are
    // invariant; quantities that carry the unit of the data (coefficients, variances, chi2 for
    // uncalibrated weights) move by up to 1e±18 past any absolute threshold.
    if cfg.units && u() < 0.10 {
        let exps: &[i32] = if case.f32 { &[-8, -4, 4, 8] } else { &[-18, -12, -8, -4, 4, 8, 12, 18] };
        let e = exps[(u() * exps.len() as f64) as usize % exps.len()];
        let f = 10f64.powi(e);
        case.y_unit_exp = e as i8;
        for col in case.c_true.iter_mut() {
            for v in col.iter_mut() {
                *v *= f;
            }
        }
        for v in case.sigma.iter_mut() {
            *v *= f;
        }
        if cfg.calibrated_weights {
            if let Some(w) = case.w.as_mut() {
                for v in w.iter_mut() {
                    *v /= f;
                }
            }
        }
    }
    // units of x (see ModelSpec::unit_exp): drawn last so that the instances are otherwise
    // the same as without units
    if cfg.units && u() < 0.15 && case.spec.unit_consistent() {
        let e = [-9i8, -6, -3, 3, 6, 9, -9, 9][(u() * 8.0) as usize % 8];
        case.spec.unit_exp = e;
        let unit = case.spec.unit();
        let fac = case.spec.unit_factors();
        for v in case.x.iter_mut() {
            *v *= unit;
        }
        for (k, f) in fac.iter().enumerate() {
            case.alpha_true[k] *= f;
            case.alpha_start[k] *= f;
        }
    }
    case
}

pub fn family_strategy(cfg: FamCfg) -> impl Strategy<Value = FamCase> {
    (proptest::collection::vec(any::<u16>(), 260), any::<u64>()).prop_map(move |(us, seed)| family_from_raw(cfg, &us, seed))
}

/// appended to the rule of the checks that use the catalogue generator (`case_strategy`)
pub const REGIMES_CATALOGUE: &str = " Shared generator regimes (class labels in coverage.classes): every case runs inside a dedicated rayon pool of 1, 2, 3, 4, 5, 7 or 16 workers chosen from its shape; 1/8 of the unit-consistent specs in other units of x (x on [0,10]·10^e, parameters scaled by their dimension, e = ±3, ±6, ±9); near collisions of same-role parameters with relative offsets 10^-U(3,15.5); 1/16 of the cases with all observations in other units of y (1e±6..1e±18, f32 up to 1e±16), 1/16 (several right-hand sides) with every column in a unit of its own; weights: none, ones or another common value, positive 1e-3..1e3, with zeros, with negatives, 1/32 all tiny (x1e-20, f32 x1e-10) or huge (x1e12); rarely N up to 200, S = 32..101, M = 13..24 with up to 40 parameters.";
/// appended to the rule of the checks that use the family generator (`family_strategy`)
pub const REGIMES_FAMILY: &str = " Shared generator regimes (class labels in coverage.classes): every instance runs inside a dedicated rayon pool of 1, 2, 3, 4, 5, 7 or 16 workers chosen from its shape; 15 % of the instances in other units of x (e = ±3, ±6, ±9), 10 % in other units of y (amplitudes, noise and calibrated weights scaled by 1e±4..1e±18; f32 up to 1e±8); location parameters start within a fraction of the peak width; where enabled: long data sets (N = 1024..5100, 1/64), data the model reproduces exactly (1/64), further families (one Gaussian: M < P; two Gaussians + offset; Lorentzian on a linear background; sine + offset; rate + damped cosine sharing the rate).";

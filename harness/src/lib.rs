//! vpharness: property-based testing / fuzzing machinery deciding the properties
//! C01..C19 of /verif/properties.jsonl for geo-ant/varpro (see /verif/DESIGN.md).
#![allow(clippy::needless_range_loop, clippy::too_many_arguments, clippy::type_complexity)]

pub mod adapt;
pub mod engine;
pub mod fl;
pub mod gen;
pub mod models;
pub mod oracle;
pub mod props;
pub mod sc;
pub mod spec;

pub use sc::Sc;

#[global_allocator]
static GLOBAL: engine::poison::PoisonAlloc = engine::poison::PoisonAlloc;

//! Models derived from a ModelSpec: hand-written (with call log and fault plan),
//! builder-made (through varpro's SeparableModelBuilder), and row-scaled wrappers.
use crate::spec::ModelSpec;
use crate::Sc;
use nalgebra::{DMatrix, DVector, Dyn, OMatrix, OVector};
use std::sync::atomic::{AtomicBool, AtomicUsize, Ordering::SeqCst};
use std::sync::{Arc, Mutex};
use varpro::model::builder::error::ModelBuildError;
use varpro::model::SeparableModel;
use varpro::prelude::*;

pub const NEVER: usize = usize::MAX;

#[derive(Clone, Copy, Debug, PartialEq, Eq, Hash, serde::Serialize, serde::Deserialize)]
pub enum CallKind {
    SetParams,
    Eval,
    Deriv,
}

#[derive(Clone, Copy, Debug, PartialEq, Eq)]
pub struct CallRec {
    pub kind: CallKind,
    /// derivative index for Deriv, 0 otherwise
    pub k: usize,
    /// phase the harness was in when the call happened
    pub phase: usize,
    pub failed: bool,
}

/// shared control block of a HandModel: counters, log, fault plan, jitter
#[derive(Debug)]
pub struct Ctl {
    pub calls: AtomicUsize,
    pub n_set: AtomicUsize,
    pub n_eval: AtomicUsize,
    pub n_deriv: AtomicUsize,
    /// index of the model call that fails (NEVER = no fault)
    pub fail_at: AtomicUsize,
    /// all calls from fail_at on fail
    pub persistent: AtomicBool,
    /// set_params failure style: true = store the new parameters, then report the error;
    /// false = validate first and keep the old parameters
    pub store_then_fail: AtomicBool,
    pub phase: AtomicUsize,
    pub logging: AtomicBool,
    pub log: Mutex<Vec<CallRec>>,
    /// number of injected failures delivered
    pub fired: AtomicUsize,
    /// busy-loop iterations in eval_partial_deriv, multiplied by a per-(k, call) factor
    pub burn: AtomicUsize,
    /// while set, calls are neither counted, logged nor failed (oracle evaluations)
    pub suspended: AtomicBool,
}

impl Default for Ctl {
    fn default() -> Self {
        Ctl {
            calls: AtomicUsize::new(0),
            n_set: AtomicUsize::new(0),
            n_eval: AtomicUsize::new(0),
            n_deriv: AtomicUsize::new(0),
            fail_at: AtomicUsize::new(NEVER),
            persistent: AtomicBool::new(false),
            store_then_fail: AtomicBool::new(false),
            phase: AtomicUsize::new(0),
            logging: AtomicBool::new(false),
            log: Mutex::new(Vec::new()),
            fired: AtomicUsize::new(0),
            burn: AtomicUsize::new(0),
            suspended: AtomicBool::new(false),
        }
    }
}

impl Ctl {
    pub fn new() -> Arc<Ctl> {
        Arc::new(Ctl::default())
    }
    pub fn total(&self) -> usize {
        self.calls.load(SeqCst)
    }
    pub fn set_phase(&self, p: usize) {
        self.phase.store(p, SeqCst)
    }
    pub fn arm(&self, fail_at: usize, persistent: bool, store_then_fail: bool) {
        self.fail_at.store(fail_at, SeqCst);
        self.persistent.store(persistent, SeqCst);
        self.store_then_fail.store(store_then_fail, SeqCst);
    }
    pub fn disarm(&self) {
        self.fail_at.store(NEVER, SeqCst);
    }
    pub fn take_log(&self) -> Vec<CallRec> {
        std::mem::take(&mut *self.log.lock().unwrap())
    }
    pub fn log_len(&self) -> usize {
        self.log.lock().unwrap().len()
    }
    /// run f with the fault plan, counters and log switched off
    pub fn suspend<R>(&self, f: impl FnOnce() -> R) -> R {
        let prev = self.suspended.swap(true, SeqCst);
        let r = f();
        self.suspended.store(prev, SeqCst);
        r
    }
    /// registers a call, returns true iff this call has to fail
    fn tick(&self, kind: CallKind, k: usize) -> bool {
        if self.suspended.load(SeqCst) {
            return false;
        }
        let idx = self.calls.fetch_add(1, SeqCst);
        match kind {
            CallKind::SetParams => self.n_set.fetch_add(1, SeqCst),
            CallKind::Eval => self.n_eval.fetch_add(1, SeqCst),
            CallKind::Deriv => self.n_deriv.fetch_add(1, SeqCst),
        };
        let fa = self.fail_at.load(SeqCst);
        let fail = fa != NEVER && if self.persistent.load(SeqCst) { idx >= fa } else { idx == fa };
        if fail {
            self.fired.fetch_add(1, SeqCst);
        }
        if self.logging.load(SeqCst) {
            self.log.lock().unwrap().push(CallRec { kind, k, phase: self.phase.load(SeqCst), failed: fail });
        }
        fail
    }
}

#[derive(Debug, Clone, PartialEq, Eq)]
pub struct HandErr(pub String);
impl std::fmt::Display for HandErr {
    fn fmt(&self, f: &mut std::fmt::Formatter<'_>) -> std::fmt::Result {
        write!(f, "HandErr({})", self.0)
    }
}
impl std::error::Error for HandErr {}

/// A hand-written separable model interpreting a ModelSpec in the scalar type T.
#[derive(Debug, Clone)]
pub struct HandModel<T: Sc> {
    pub spec: ModelSpec,
    pub x: Vec<T>,
    pub params: Vec<T>,
    pub ctl: Arc<Ctl>,
}

impl<T: Sc> HandModel<T> {
    pub fn new(spec: &ModelSpec, x: &[T], alpha: &[T]) -> Self {
        HandModel { spec: spec.clone(), x: x.to_vec(), params: alpha.to_vec(), ctl: Ctl::new() }
    }
    pub fn with_ctl(spec: &ModelSpec, x: &[T], alpha: &[T], ctl: Arc<Ctl>) -> Self {
        HandModel { spec: spec.clone(), x: x.to_vec(), params: alpha.to_vec(), ctl }
    }
}

#[inline(never)]
fn burn_cpu(iters: usize) -> u64 {
    let mut s = 0x9e37_79b9_7f4a_7c15u64;
    for i in 0..iters {
        s = s.rotate_left(5) ^ (i as u64).wrapping_mul(0x2545_f491_4f6c_dd1d);
    }
    std::hint::black_box(s)
}

impl<T: Sc> SeparableNonlinearModel for HandModel<T> {
    type ScalarType = T;
    type Error = HandErr;

    fn parameter_count(&self) -> usize {
        self.spec.p
    }
    fn base_function_count(&self) -> usize {
        self.spec.m()
    }
    fn output_len(&self) -> usize {
        self.x.len()
    }
    fn set_params(&mut self, parameters: OVector<T, Dyn>) -> Result<(), HandErr> {
        let fail = self.ctl.tick(CallKind::SetParams, 0);
        if parameters.len() != self.spec.p {
            return Err(HandErr(format!("expected {} parameters, got {}", self.spec.p, parameters.len())));
        }
        if fail {
            if self.ctl.store_then_fail.load(SeqCst) {
                self.params = parameters.iter().copied().collect();
            }
            return Err(HandErr("injected set_params failure".into()));
        }
        self.params = parameters.iter().copied().collect();
        Ok(())
    }
    fn params(&self) -> OVector<T, Dyn> {
        DVector::from_vec(self.params.clone())
    }
    fn eval(&self) -> Result<OMatrix<T, Dyn, Dyn>, HandErr> {
        if self.ctl.tick(CallKind::Eval, 0) {
            return Err(HandErr("injected eval failure".into()));
        }
        let n = self.x.len();
        let m = self.spec.m();
        let mut out = DMatrix::from_element(n, m, T::of(0.0));
        for j in 0..m {
            let col = self.spec.eval_col(j, &self.x, &self.params);
            out.column_mut(j).copy_from_slice(&col);
        }
        Ok(out)
    }
    fn eval_partial_deriv(&self, k: usize) -> Result<OMatrix<T, Dyn, Dyn>, HandErr> {
        let fail = self.ctl.tick(CallKind::Deriv, k);
        let burn = self.ctl.burn.load(SeqCst);
        if burn > 0 {
            // per-(k, call) pseudo-random amount of work to perturb which worker finishes first
            let c = self.ctl.calls.load(SeqCst);
            let f = ((k as u64 + 1).wrapping_mul(0x9e37_79b9) ^ (c as u64).wrapping_mul(0x85eb_ca6b)) % 7;
            burn_cpu(burn * f as usize);
        }
        if fail {
            return Err(HandErr(format!("injected derivative failure k={k}")));
        }
        if k >= self.spec.p {
            return Err(HandErr(format!("derivative index {k} out of bounds")));
        }
        let n = self.x.len();
        let m = self.spec.m();
        let mut out = DMatrix::from_element(n, m, T::of(0.0));
        for j in 0..m {
            let col = self.spec.deriv_col(j, k, &self.x, &self.params);
            out.column_mut(j).copy_from_slice(&col);
        }
        Ok(out)
    }
}

/// fault plan for builder-made models: the user closures share one call counter; the
/// call with index `break_at` (and all later ones if persistent) returns a vector of
/// length `wrong_len` instead of the length of x
#[derive(Debug)]
pub struct BFault {
    pub calls: AtomicUsize,
    pub break_at: AtomicUsize,
    pub persistent: AtomicBool,
    pub wrong_len: AtomicUsize,
    pub fired: AtomicUsize,
    /// busy-loop unit per closure call (schedule jitter for the parallel flavour), scaled by a
    /// per-call pseudo-random factor 0..6
    pub burn: AtomicUsize,
}
impl BFault {
    pub fn new() -> Arc<BFault> {
        Arc::new(BFault {
            calls: AtomicUsize::new(0),
            break_at: AtomicUsize::new(NEVER),
            persistent: AtomicBool::new(false),
            wrong_len: AtomicUsize::new(0),
            fired: AtomicUsize::new(0),
            burn: AtomicUsize::new(0),
        })
    }
    pub fn arm(&self, break_at: usize, persistent: bool, wrong_len: usize) {
        self.break_at.store(break_at, SeqCst);
        self.persistent.store(persistent, SeqCst);
        self.wrong_len.store(wrong_len, SeqCst);
    }
    fn tick(&self) -> Option<usize> {
        let idx = self.calls.fetch_add(1, SeqCst);
        let burn = self.burn.load(SeqCst);
        if burn > 0 {
            burn_cpu(burn * ((idx as u64).wrapping_mul(0x9e37_79b9_7f4a_7c15) >> 61) as usize);
        }
        let b = self.break_at.load(SeqCst);
        let fail = b != NEVER && if self.persistent.load(SeqCst) { idx >= b } else { idx == b };
        if fail {
            self.fired.fetch_add(1, SeqCst);
            Some(self.wrong_len.load(SeqCst))
        } else {
            None
        }
    }
}

pub fn pname(i: usize) -> String {
    format!("p{i}")
}

/// Build the model through varpro's SeparableModelBuilder. Each term becomes a closure
/// of its exact arity; derivatives are supplied in reverse argument order when
/// `reverse_derivs` is set (the order must not matter).
pub fn builder_model<T: Sc>(
    spec: &ModelSpec,
    x: &[T],
    alpha: &[T],
    fault: Option<Arc<BFault>>,
    reverse_derivs: bool,
) -> Result<SeparableModel<T>, ModelBuildError> {
    let names: Vec<String> = (0..spec.p).map(pname).collect();
    let mut b = SeparableModelBuilder::<T>::new(&names);
    // independent variable and initial parameters first or last must not matter; we put x
    // first and the parameters last, like the documentation does
    b = b.independent_variable(DVector::from_vec(x.to_vec()));
    for t in &spec.terms {
        let kind = t.kind;
        let flt = fault.clone();
        let wrap = move |flt: &Option<Arc<BFault>>, v: DVector<T>| -> DVector<T> {
            if let Some(f) = flt {
                if let Some(len) = f.tick() {
                    return DVector::from_element(len, T::of(0.5));
                }
            }
            v
        };
        match kind.arity() {
            0 => {
                b = b.invariant_function(move |x: &DVector<T>| wrap(&flt, x.map(|xi| kind.value(xi, &[]))));
            }
            1 => {
                let n0 = pname(t.args[0]);
                let f1 = flt.clone();
                b = b
                    .function([n0.clone()], move |x: &DVector<T>, a: T| wrap(&flt, x.map(|xi| kind.value(xi, &[a]))))
                    .partial_deriv(n0, move |x: &DVector<T>, a: T| wrap(&f1, x.map(|xi| kind.deriv(0, xi, &[a]))));
            }
            2 => {
                let n0 = pname(t.args[0]);
                let n1 = pname(t.args[1]);
                let f1 = flt.clone();
                let f2 = flt.clone();
                b = b.function([n0.clone(), n1.clone()], move |x: &DVector<T>, a: T, c: T| {
                    wrap(&flt, x.map(|xi| kind.value(xi, &[a, c])))
                });
                let d0 = move |x: &DVector<T>, a: T, c: T| wrap(&f1, x.map(|xi| kind.deriv(0, xi, &[a, c])));
                let d1 = move |x: &DVector<T>, a: T, c: T| wrap(&f2, x.map(|xi| kind.deriv(1, xi, &[a, c])));
                if reverse_derivs {
                    b = b.partial_deriv(n1, d1).partial_deriv(n0, d0);
                } else {
                    b = b.partial_deriv(n0, d0).partial_deriv(n1, d1);
                }
            }
            _ => unreachable!(),
        }
    }
    b.initial_parameters(alpha.to_vec()).build()
}

/// Row-scaled twin of a model: every row i of the basis matrix and of every derivative
/// matrix is multiplied by w[i] (property C06).
pub struct RowScaled<M: SeparableNonlinearModel> {
    pub inner: M,
    pub w: Vec<M::ScalarType>,
}

impl<T: Sc, M: SeparableNonlinearModel<ScalarType = T>> RowScaled<M> {
    fn scale(&self, mut mat: OMatrix<T, Dyn, Dyn>) -> OMatrix<T, Dyn, Dyn> {
        for j in 0..mat.ncols() {
            for i in 0..mat.nrows() {
                mat[(i, j)] = self.w[i] * mat[(i, j)];
            }
        }
        mat
    }
}

impl<T: Sc, M: SeparableNonlinearModel<ScalarType = T>> SeparableNonlinearModel for RowScaled<M> {
    type ScalarType = T;
    type Error = M::Error;
    fn parameter_count(&self) -> usize {
        self.inner.parameter_count()
    }
    fn base_function_count(&self) -> usize {
        self.inner.base_function_count()
    }
    fn output_len(&self) -> usize {
        self.inner.output_len()
    }
    fn set_params(&mut self, parameters: OVector<T, Dyn>) -> Result<(), Self::Error> {
        self.inner.set_params(parameters)
    }
    fn params(&self) -> OVector<T, Dyn> {
        self.inner.params()
    }
    fn eval(&self) -> Result<OMatrix<T, Dyn, Dyn>, Self::Error> {
        self.inner.eval().map(|m| self.scale(m))
    }
    fn eval_partial_deriv(&self, k: usize) -> Result<OMatrix<T, Dyn, Dyn>, Self::Error> {
        self.inner.eval_partial_deriv(k).map(|m| self.scale(m))
    }
}

//! Dense column-major f64 matrices, one-sided Jacobi SVD (Hestenes), thresholded
//! pseudo-inverse solve. Written for the harness; shares no code with nalgebra.
use crate::Sc;
use nalgebra::DMatrix;

#[derive(Clone, Debug, PartialEq)]
pub struct Mat {
    pub r: usize,
    pub c: usize,
    pub d: Vec<f64>, // column major
}

impl Mat {
    pub fn zeros(r: usize, c: usize) -> Mat {
        Mat { r, c, d: vec![0.0; r * c] }
    }
    pub fn eye(n: usize) -> Mat {
        let mut m = Mat::zeros(n, n);
        for i in 0..n {
            m.d[i + i * n] = 1.0;
        }
        m
    }
    pub fn from_fn(r: usize, c: usize, f: impl Fn(usize, usize) -> f64) -> Mat {
        let mut m = Mat::zeros(r, c);
        for j in 0..c {
            for i in 0..r {
                m.d[i + j * r] = f(i, j);
            }
        }
        m
    }
    pub fn from_cols(r: usize, c: usize, d: Vec<f64>) -> Mat {
        assert_eq!(d.len(), r * c);
        Mat { r, c, d }
    }
    pub fn from_na<T: Sc>(m: &DMatrix<T>) -> Mat {
        Mat {
            r: m.nrows(),
            c: m.ncols(),
            d: m.iter().map(|v| v.f()).collect(),
        }
    }
    pub fn col_vec(v: &[f64]) -> Mat {
        Mat { r: v.len(), c: 1, d: v.to_vec() }
    }
    #[inline]
    pub fn at(&self, i: usize, j: usize) -> f64 {
        self.d[i + j * self.r]
    }
    #[inline]
    pub fn set(&mut self, i: usize, j: usize, v: f64) {
        self.d[i + j * self.r] = v;
    }
    pub fn col(&self, j: usize) -> &[f64] {
        &self.d[j * self.r..(j + 1) * self.r]
    }
    pub fn col_mut(&mut self, j: usize) -> &mut [f64] {
        let r = self.r;
        &mut self.d[j * r..(j + 1) * r]
    }
    pub fn t(&self) -> Mat {
        Mat::from_fn(self.c, self.r, |i, j| self.at(j, i))
    }
    pub fn mul(&self, b: &Mat) -> Mat {
        assert_eq!(self.c, b.r, "mul dims");
        let mut out = Mat::zeros(self.r, b.c);
        for j in 0..b.c {
            for k in 0..self.c {
                let bkj = b.at(k, j);
                if bkj == 0.0 {
                    continue;
                }
                for i in 0..self.r {
                    out.d[i + j * self.r] += self.at(i, k) * bkj;
                }
            }
        }
        out
    }
    /// |A| * |B| (entrywise absolute values), used for componentwise rounding bounds
    pub fn abs_mul(&self, b: &Mat) -> Mat {
        self.abs().mul(&b.abs())
    }
    pub fn abs(&self) -> Mat {
        Mat { r: self.r, c: self.c, d: self.d.iter().map(|v| v.abs()).collect() }
    }
    pub fn sub(&self, b: &Mat) -> Mat {
        assert_eq!((self.r, self.c), (b.r, b.c));
        Mat { r: self.r, c: self.c, d: self.d.iter().zip(&b.d).map(|(x, y)| x - y).collect() }
    }
    pub fn add(&self, b: &Mat) -> Mat {
        assert_eq!((self.r, self.c), (b.r, b.c));
        Mat { r: self.r, c: self.c, d: self.d.iter().zip(&b.d).map(|(x, y)| x + y).collect() }
    }
    pub fn scale(&self, s: f64) -> Mat {
        Mat { r: self.r, c: self.c, d: self.d.iter().map(|x| x * s).collect() }
    }
    /// multiply row i by w[i]
    pub fn row_scale(&self, w: &[f64]) -> Mat {
        assert_eq!(w.len(), self.r);
        Mat::from_fn(self.r, self.c, |i, j| w[i] * self.at(i, j))
    }
    pub fn fro(&self) -> f64 {
        norm2(&self.d)
    }
    pub fn max_abs(&self) -> f64 {
        self.d.iter().fold(0.0f64, |m, v| m.max(v.abs()))
    }
    pub fn all_finite(&self) -> bool {
        self.d.iter().all(|v| v.is_finite())
    }
    pub fn sub_cols(&self, from: usize, to: usize) -> Mat {
        Mat { r: self.r, c: to - from, d: self.d[from * self.r..to * self.r].to_vec() }
    }
    pub fn hcat(&self, b: &Mat) -> Mat {
        assert_eq!(self.r, b.r);
        let mut d = self.d.clone();
        d.extend_from_slice(&b.d);
        Mat { r: self.r, c: self.c + b.c, d }
    }
}

/// scaled Euclidean norm (no overflow for large entries)
pub fn norm2(v: &[f64]) -> f64 {
    let m = v.iter().fold(0.0f64, |m, x| m.max(x.abs()));
    if m == 0.0 || !m.is_finite() {
        return m;
    }
    let s: f64 = v.iter().map(|x| (x / m) * (x / m)).sum();
    m * s.sqrt()
}

pub fn dot(a: &[f64], b: &[f64]) -> f64 {
    a.iter().zip(b).map(|(x, y)| x * y).sum()
}

/// Thin SVD A = U diag(s) V^T with k = min(r,c) columns, s descending.
#[derive(Clone, Debug)]
pub struct Svd {
    pub u: Mat, // r x k
    pub s: Vec<f64>,
    pub v: Mat, // c x k
}

fn jacobi_tall(a: &Mat) -> Svd {
    // requires a.r >= a.c
    let (r, c) = (a.r, a.c);
    let mut g = a.clone();
    // scale to avoid over/underflow in the column norms
    let amax = g.max_abs();
    let scale = if amax > 0.0 && amax.is_finite() { amax } else { 1.0 };
    for x in g.d.iter_mut() {
        *x /= scale;
    }
    let mut v = Mat::eye(c);
    let tol = 1e-16;
    for _sweep in 0..80 {
        let mut rotated = false;
        for p in 0..c {
            for q in (p + 1)..c {
                let (mut alpha, mut beta, mut gamma) = (0.0, 0.0, 0.0);
                for i in 0..r {
                    let gp = g.d[i + p * r];
                    let gq = g.d[i + q * r];
                    alpha += gp * gp;
                    beta += gq * gq;
                    gamma += gp * gq;
                }
                if gamma == 0.0 || gamma.abs() <= tol * (alpha * beta).sqrt() {
                    continue;
                }
                rotated = true;
                let zeta = (beta - alpha) / (2.0 * gamma);
                let t = zeta.signum() / (zeta.abs() + (1.0 + zeta * zeta).sqrt());
                let t = if zeta == 0.0 { 1.0 } else { t };
                let cs = 1.0 / (1.0 + t * t).sqrt();
                let sn = cs * t;
                for i in 0..r {
                    let gp = g.d[i + p * r];
                    let gq = g.d[i + q * r];
                    g.d[i + p * r] = cs * gp - sn * gq;
                    g.d[i + q * r] = sn * gp + cs * gq;
                }
                for i in 0..c {
                    let vp = v.d[i + p * c];
                    let vq = v.d[i + q * c];
                    v.d[i + p * c] = cs * vp - sn * vq;
                    v.d[i + q * c] = sn * vp + cs * vq;
                }
            }
        }
        if !rotated {
            break;
        }
    }
    let mut s: Vec<f64> = (0..c).map(|j| norm2(g.col(j))).collect();
    let mut u = Mat::zeros(r, c);
    for j in 0..c {
        if s[j] > 0.0 {
            for i in 0..r {
                u.d[i + j * r] = g.d[i + j * r] / s[j];
            }
        }
    }
    for x in s.iter_mut() {
        *x *= scale;
    }
    // sort descending
    let mut idx: Vec<usize> = (0..c).collect();
    idx.sort_by(|&a, &b| s[b].partial_cmp(&s[a]).unwrap_or(std::cmp::Ordering::Equal));
    let su: Vec<f64> = idx.iter().map(|&j| s[j]).collect();
    let mut uu = Mat::zeros(r, c);
    let mut vv = Mat::zeros(c, c);
    for (nj, &j) in idx.iter().enumerate() {
        uu.col_mut(nj).copy_from_slice(u.col(j));
        vv.col_mut(nj).copy_from_slice(v.col(j));
    }
    Svd { u: uu, s: su, v: vv }
}

pub fn svd(a: &Mat) -> Svd {
    if a.r >= a.c {
        jacobi_tall(a)
    } else {
        let t = jacobi_tall(&a.t());
        Svd { u: t.v, s: t.s, v: t.u }
    }
}

impl Svd {
    /// number of singular values strictly above `eps` (the convention of the code under
    /// test and of property C01: values at or below the threshold count as zero)
    pub fn rank(&self, eps: f64) -> usize {
        self.s.iter().filter(|&&x| x > eps).count()
    }
    /// x = V_r S_r^{-1} U_r^T b using the first `rank` singular triplets
    pub fn solve_rank(&self, b: &Mat, rank: usize) -> Mat {
        let k = rank.min(self.s.len());
        let mut x = Mat::zeros(self.v.r, b.c);
        for col in 0..b.c {
            for j in 0..k {
                let coef = dot(self.u.col(j), b.col(col)) / self.s[j];
                for i in 0..self.v.r {
                    x.d[i + col * self.v.r] += self.v.at(i, j) * coef;
                }
            }
        }
        x
    }
    /// orthogonal projection of the columns of b onto span(U[:, 0..rank])
    pub fn project_range(&self, b: &Mat, rank: usize) -> Mat {
        let k = rank.min(self.s.len());
        let mut out = Mat::zeros(b.r, b.c);
        for col in 0..b.c {
            for j in 0..k {
                let coef = dot(self.u.col(j), b.col(col));
                for i in 0..b.r {
                    out.d[i + col * b.r] += self.u.at(i, j) * coef;
                }
            }
        }
        out
    }
    pub fn smax(&self) -> f64 {
        self.s.first().copied().unwrap_or(0.0)
    }
    pub fn smin(&self) -> f64 {
        self.s.last().copied().unwrap_or(0.0)
    }
}

/// inverse of a symmetric positive definite matrix H^T H computed from the SVD of H:
/// (H^T H)^{-1} = V S^{-2} V^T
pub fn inv_gram_from_svd(s: &Svd) -> Mat {
    let n = s.v.r;
    let mut out = Mat::zeros(n, n);
    for k in 0..s.s.len() {
        let w = 1.0 / (s.s[k] * s.s[k]);
        for j in 0..n {
            for i in 0..n {
                out.d[i + j * n] += s.v.at(i, k) * s.v.at(j, k) * w;
            }
        }
    }
    out
}

/// self test of the kernel; returns Err(description) on any inconsistency
pub fn self_test() -> Result<usize, String> {
    let mut state = 0x1234_5678_9abc_def0u64;
    let mut rnd = move || {
        state ^= state << 13;
        state ^= state >> 7;
        state ^= state << 17;
        ((state >> 11) as f64) / ((1u64 << 53) as f64) * 2.0 - 1.0
    };
    let mut n_checked = 0;
    let shapes = [(1, 1), (3, 1), (5, 3), (8, 8), (3, 6), (1, 4), (12, 5), (40, 6)];
    for &(r, c) in shapes.iter() {
        for variant in 0..4 {
            let mut a = Mat::from_fn(r, c, |_, _| 0.0);
            for x in a.d.iter_mut() {
                *x = rnd();
            }
            if variant == 1 && c >= 2 {
                // exact rank deficiency: last column = first column
                let first = a.col(0).to_vec();
                a.col_mut(c - 1).copy_from_slice(&first);
            }
            if variant == 2 {
                for x in a.d.iter_mut() {
                    *x *= 1e150;
                }
            }
            if variant == 3 {
                for x in a.d.iter_mut() {
                    *x *= 1e-150;
                }
            }
            let s = svd(&a);
            let k = r.min(c);
            if s.s.len() != k {
                return Err("svd: wrong number of singular values".into());
            }
            // reconstruction
            let mut us = s.u.clone();
            for j in 0..k {
                for i in 0..r {
                    us.d[i + j * r] *= s.s[j];
                }
            }
            let rec = us.mul(&s.v.t());
            let err = rec.sub(&a).fro();
            if err > 1e-13 * a.fro().max(f64::MIN_POSITIVE) {
                return Err(format!("svd: reconstruction error {err:e} for {r}x{c} v{variant}"));
            }
            // orthogonality of V and of the U columns with nonzero singular value
            let vtv = s.v.t().mul(&s.v);
            if vtv.sub(&Mat::eye(k)).max_abs() > 1e-13 {
                return Err(format!("svd: V not orthonormal for {r}x{c} v{variant}"));
            }
            let rank = s.rank(1e-12 * s.smax());
            let ur = s.u.sub_cols(0, rank);
            let utu = ur.t().mul(&ur);
            if utu.sub(&Mat::eye(rank)).max_abs() > 1e-12 {
                return Err(format!("svd: U not orthonormal for {r}x{c} v{variant}"));
            }
            for w in s.s.windows(2) {
                if w[0] < w[1] {
                    return Err("svd: singular values not sorted".into());
                }
            }
            if variant == 1 && c >= 2 && r >= c && rank != c - 1 {
                return Err(format!("svd: rank {rank} of a rank-deficient {r}x{c} matrix"));
            }
            // least squares: normal equations hold for the solution
            let mut b = Mat::zeros(r, 2);
            for x in b.d.iter_mut() {
                *x = rnd();
            }
            let x = s.solve_rank(&b, rank);
            let res = b.sub(&a.mul(&x));
            let ne = a.t().mul(&res);
            if ne.max_abs() > 1e-11 * a.fro() * (b.fro() + a.fro() * x.fro()) {
                return Err(format!("solve: normal equations violated for {r}x{c} v{variant}"));
            }
            n_checked += 1;
        }
    }
    Ok(n_checked)
}

//! Harness-owned oracle kernel: dense f64 linear algebra (no nalgebra) and Student-t.
pub mod linalg;
pub mod student;
pub use linalg::Mat;

//! Student-t distribution for the oracle side: regularised incomplete beta function by
//! Lentz' continued fraction, CDF, and quantile by bracketing + bisection.
//! Independent of the `distrs` crate used by the code under test.

fn ln_gamma(x: f64) -> f64 {
    // Lanczos approximation (g = 7, n = 9), |rel err| < 1e-14 for x > 0
    const G: f64 = 7.0;
    const C: [f64; 9] = [
        0.999_999_999_999_809_9,
        676.520_368_121_885_1,
        -1_259.139_216_722_402_8,
        771.323_428_777_653_1,
        -176.615_029_162_140_6,
        12.507_343_278_686_905,
        -0.138_571_095_265_720_12,
        9.984_369_578_019_572e-6,
        1.505_632_735_149_311_6e-7,
    ];
    if x < 0.5 {
        let pi = std::f64::consts::PI;
        return (pi / (pi * x).sin()).ln() - ln_gamma(1.0 - x);
    }
    let x = x - 1.0;
    let mut a = C[0];
    let t = x + G + 0.5;
    for (i, c) in C.iter().enumerate().skip(1) {
        a += c / (x + i as f64);
    }
    0.5 * (2.0 * std::f64::consts::PI).ln() + (x + 0.5) * t.ln() - t + a.ln()
}

fn betacf(a: f64, b: f64, x: f64) -> f64 {
    let tiny = 1e-300;
    let qab = a + b;
    let qap = a + 1.0;
    let qam = a - 1.0;
    let mut c = 1.0;
    let mut d = 1.0 - qab * x / qap;
    if d.abs() < tiny {
        d = tiny;
    }
    d = 1.0 / d;
    let mut h = d;
    for m in 1..2000 {
        let m = m as f64;
        let m2 = 2.0 * m;
        let aa = m * (b - m) * x / ((qam + m2) * (a + m2));
        d = 1.0 + aa * d;
        if d.abs() < tiny {
            d = tiny;
        }
        c = 1.0 + aa / c;
        if c.abs() < tiny {
            c = tiny;
        }
        d = 1.0 / d;
        h *= d * c;
        let aa = -(a + m) * (qab + m) * x / ((a + m2) * (qap + m2));
        d = 1.0 + aa * d;
        if d.abs() < tiny {
            d = tiny;
        }
        c = 1.0 + aa / c;
        if c.abs() < tiny {
            c = tiny;
        }
        d = 1.0 / d;
        let del = d * c;
        h *= del;
        if (del - 1.0).abs() < 1e-16 {
            break;
        }
    }
    h
}

/// regularised incomplete beta I_x(a,b)
pub fn inc_beta(a: f64, b: f64, x: f64) -> f64 {
    inc_beta_xy(a, b, x, 1.0 - x)
}

/// I_x(a,b) with y = 1 - x supplied separately (avoids cancellation for x close to 1)
pub fn inc_beta_xy(a: f64, b: f64, x: f64, y: f64) -> f64 {
    if x <= 0.0 {
        return 0.0;
    }
    if y <= 0.0 {
        return 1.0;
    }
    let ln_bt = ln_gamma(a + b) - ln_gamma(a) - ln_gamma(b) + a * x.ln() + b * y.ln();
    let bt = ln_bt.exp();
    if x < (a + 1.0) / (a + b + 2.0) {
        bt * betacf(a, b, x) / a
    } else {
        1.0 - bt * betacf(b, a, y) / b
    }
}

/// 1 - I_x(a,b) = I_y(b,a), computed without cancellation
pub fn inc_beta_compl_xy(a: f64, b: f64, x: f64, y: f64) -> f64 {
    inc_beta_xy(b, a, y, x)
}

/// upper tail probability P(T > t) for t >= 0 with nu degrees of freedom
pub fn t_sf(t: f64, nu: f64) -> f64 {
    debug_assert!(t >= 0.0);
    let x = nu / (nu + t * t);
    let y = t * t / (nu + t * t);
    0.5 * inc_beta_xy(0.5 * nu, 0.5, x, y)
}

/// central probability P(|T| <= t), accurate also for tiny t
pub fn t_central(t: f64, nu: f64) -> f64 {
    let t = t.abs();
    let x = nu / (nu + t * t);
    let y = t * t / (nu + t * t);
    inc_beta_compl_xy(0.5 * nu, 0.5, x, y)
}

pub fn t_cdf(t: f64, nu: f64) -> f64 {
    if t >= 0.0 {
        1.0 - t_sf(t, nu)
    } else {
        t_sf(-t, nu)
    }
}

/// two-sided critical value: the t >= 0 with P(|T| <= t) = p, i.e. the (1+p)/2 quantile.
/// Works on the tail probability (1-p)/2 so that p close to 1 keeps its accuracy.
pub fn t_two_sided(p: f64, nu: f64) -> f64 {
    assert!(p > 0.0 && p < 1.0);
    if p < 0.5 {
        // work on the central probability, which keeps its relative accuracy for small p
        let mut lo = 0.0;
        let mut hi = 1.0;
        while t_central(hi, nu) < p {
            lo = hi;
            hi *= 2.0;
        }
        for _ in 0..2000 {
            let mid = 0.5 * (lo + hi);
            if t_central(mid, nu) < p {
                lo = mid;
            } else {
                hi = mid;
            }
            if (hi - lo) <= 1e-15 * hi {
                break;
            }
        }
        return 0.5 * (lo + hi);
    }
    let tail = 0.5 * (1.0 - p);
    // bracket
    let mut lo = 0.0;
    let mut hi = 1.0;
    while t_sf(hi, nu) > tail {
        lo = hi;
        hi *= 2.0;
        if hi > 1e300 {
            return f64::INFINITY;
        }
    }
    for _ in 0..200 {
        let mid = 0.5 * (lo + hi);
        if t_sf(mid, nu) > tail {
            lo = mid;
        } else {
            hi = mid;
        }
        if (hi - lo) <= 1e-15 * hi {
            break;
        }
    }
    0.5 * (lo + hi)
}

pub fn self_test() -> Result<usize, String> {
    let mut n = 0;
    // closed forms: nu = 1 (Cauchy): cdf = 1/2 + atan(t)/pi; nu = 2: 1/2 + t/(2 sqrt(2+t^2))
    for i in 0..200 {
        let t = -20.0 + 0.2 * i as f64 + 0.05;
        let c1 = 0.5 + t.atan() / std::f64::consts::PI;
        let c2 = 0.5 + t / (2.0 * (2.0 + t * t).sqrt());
        if (t_cdf(t, 1.0) - c1).abs() > 1e-13 {
            return Err(format!("t cdf nu=1 at {t}: {} vs {}", t_cdf(t, 1.0), c1));
        }
        if (t_cdf(t, 2.0) - c2).abs() > 1e-13 {
            return Err(format!("t cdf nu=2 at {t}: {} vs {}", t_cdf(t, 2.0), c2));
        }
        n += 2;
    }
    // quantile closed forms for nu = 1 and 2
    for &p in &[1e-6, 0.01, 0.3, 0.5, 0.683, 0.9, 0.95, 0.99, 0.999999] {
        let t1 = (std::f64::consts::PI * 0.5 * p).tan();
        let a = p;
        let t2 = a * (2.0 / (1.0 - a * a)).sqrt();
        let e1 = (t_two_sided(p, 1.0) - t1).abs() / t1;
        let e2 = (t_two_sided(p, 2.0) - t2).abs() / t2;
        if e1 > 1e-9 || e2 > 1e-9 {
            return Err(format!("t quantile closed form mismatch p={p}: {e1:e} {e2:e}"));
        }
        n += 2;
    }
    // known table values (two-sided 95%): nu=5 2.570581836, nu=10 2.228138852, nu=30 2.042272456
    for &(nu, want) in &[(5.0, 2.570_581_835_636_314), (10.0, 2.228_138_851_986_274), (30.0, 2.042_272_456_301_238)] {
        let got = t_two_sided(0.95, nu);
        if (got - want).abs() > 1e-9 {
            return Err(format!("t quantile table nu={nu}: {got} vs {want}"));
        }
        n += 1;
    }
    // round trip
    for nu in [1.0, 2.0, 3.0, 4.0, 7.0, 15.0, 60.0, 300.0] {
        for &p in &[1e-9, 1e-4, 0.2, 0.5, 0.8, 0.99, 1.0 - 1e-9] {
            let t = t_two_sided(p, nu);
            let back = t_central(t, nu);
            if (back - p).abs() > 1e-11 * p.max(1e-3) {
                return Err(format!("t round trip nu={nu} p={p}: {back}"));
            }
            n += 1;
        }
    }
    Ok(n)
}

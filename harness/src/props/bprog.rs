//! Builder call programs for SeparableModelBuilder (properties C15, C16, C17):
//! representation, interpreter (macro-generated closures of the exact arity 1..10),
//! and the independent declarative specification of validity.
use crate::Sc;
use nalgebra::DVector;
use serde::{Deserialize, Serialize};
use std::sync::atomic::{AtomicUsize, Ordering::SeqCst};
use std::sync::Arc;
use varpro::model::builder::error::ModelBuildError;
use varpro::model::SeparableModel;
use varpro::prelude::*;

/// an affine form with small integer coefficients: value(x_i, a_1..a_n) = x_i + tag + sum q_k a_k
#[derive(Clone, Debug, PartialEq, Eq, Hash, Serialize, Deserialize)]
pub struct Form {
    pub tag: i32,
    pub q: Vec<i32>,
}

impl Form {
    pub fn arity(&self) -> usize {
        self.q.len()
    }
    pub fn value(&self, x: f64, args: &[f64]) -> f64 {
        x + self.tag as f64 + self.q.iter().zip(args).map(|(q, a)| *q as f64 * a).sum::<f64>()
    }
}

#[derive(Clone, Debug, PartialEq, Eq, Hash, Serialize, Deserialize)]
pub enum Call {
    /// .function(names, closure of arity form.q.len())
    Function { names: Vec<String>, form: Form },
    /// .partial_deriv(name, closure of arity form.q.len())
    Deriv { name: String, form: Form },
    /// .invariant_function(x -> x + tag)
    Invariant { tag: i32 },
    /// .independent_variable(0, 1, .., n-1)
    X(usize),
    /// .independent_variable(start, start+1, .., start+n-1): an earlier, later overridden grid
    XFrom { n: usize, start: i32 },
    /// .initial_parameters(values)
    Init(Vec<i32>),
}

#[derive(Clone, Debug, PartialEq, Eq, Hash, Serialize, Deserialize)]
pub struct Program {
    pub model_names: Vec<String>,
    pub calls: Vec<Call>,
}

/// per-closure switch: NOT_BROKEN, or the (wrong) output length to return
pub const NOT_BROKEN: usize = usize::MAX;
#[derive(Debug, Default)]
pub struct Hooks {
    /// indexed by the position of the call in the program
    pub broken: Vec<AtomicUsize>,
    pub calls: AtomicUsize,
}
impl Hooks {
    pub fn new(n: usize) -> Arc<Hooks> {
        Arc::new(Hooks { broken: (0..n).map(|_| AtomicUsize::new(NOT_BROKEN)).collect(), calls: AtomicUsize::new(0) })
    }
}

fn finish<T: Sc>(hooks: &Option<Arc<Hooks>>, id: usize, v: DVector<T>) -> DVector<T> {
    if let Some(h) = hooks {
        h.calls.fetch_add(1, SeqCst);
        let b = h.broken[id].load(SeqCst);
        if b != NOT_BROKEN {
            return DVector::from_element(b, T::of(7.0));
        }
    }
    v
}

macro_rules! closure_for_arity {
    ($T:ty, $form:expr, $hooks:expr, $id:expr; $($a:ident),+) => {{
        let form: Form = $form;
        let hooks: Option<Arc<Hooks>> = $hooks;
        let id: usize = $id;
        move |x: &DVector<$T>, $($a: $T),+| {
            let args = [$($a.f()),+];
            finish::<$T>(&hooks, id, x.map(|xi| <$T as Sc>::of(form.value(xi.f(), &args))))
        }
    }};
}

macro_rules! dispatch_arity {
    ($T:ty, $arity:expr, $form:expr, $hooks:expr, $id:expr, |$c:ident| $body:expr) => {
        match $arity {
            1 => { let $c = closure_for_arity!($T, $form, $hooks, $id; a1); $body }
            2 => { let $c = closure_for_arity!($T, $form, $hooks, $id; a1, a2); $body }
            3 => { let $c = closure_for_arity!($T, $form, $hooks, $id; a1, a2, a3); $body }
            4 => { let $c = closure_for_arity!($T, $form, $hooks, $id; a1, a2, a3, a4); $body }
            5 => { let $c = closure_for_arity!($T, $form, $hooks, $id; a1, a2, a3, a4, a5); $body }
            6 => { let $c = closure_for_arity!($T, $form, $hooks, $id; a1, a2, a3, a4, a5, a6); $body }
            7 => { let $c = closure_for_arity!($T, $form, $hooks, $id; a1, a2, a3, a4, a5, a6, a7); $body }
            8 => { let $c = closure_for_arity!($T, $form, $hooks, $id; a1, a2, a3, a4, a5, a6, a7, a8); $body }
            9 => { let $c = closure_for_arity!($T, $form, $hooks, $id; a1, a2, a3, a4, a5, a6, a7, a8, a9); $body }
            10 => { let $c = closure_for_arity!($T, $form, $hooks, $id; a1, a2, a3, a4, a5, a6, a7, a8, a9, a10); $body }
            other => panic!("harness bug: closure arity {other} is not supported"),
        }
    };
}

/// execute the program against the real builder
pub fn interpret<T: Sc>(prog: &Program, hooks: Option<Arc<Hooks>>) -> Result<SeparableModel<T>, ModelBuildError> {
    let mut b = SeparableModelBuilder::<T>::new(prog.model_names.iter().map(|s| s.as_str()));
    for (id, call) in prog.calls.iter().enumerate() {
        b = match call {
            Call::Function { names, form } => {
                let names: Vec<&str> = names.iter().map(|s| s.as_str()).collect();
                dispatch_arity!(T, form.arity(), form.clone(), hooks.clone(), id, |c| b.function(names, c))
            }
            Call::Deriv { name, form } => {
                dispatch_arity!(T, form.arity(), form.clone(), hooks.clone(), id, |c| b.partial_deriv(name.as_str(), c))
            }
            Call::Invariant { tag } => {
                let tag = *tag;
                let hooks = hooks.clone();
                b.invariant_function(move |x: &DVector<T>| finish::<T>(&hooks, id, x.map(|xi| T::of(xi.f() + tag as f64))))
            }
            Call::X(n) => b.independent_variable(DVector::from_fn(*n, |i, _| T::of(i as f64))),
            Call::XFrom { n, start } => b.independent_variable(DVector::from_fn(*n, |i, _| T::of(i as f64 + *start as f64))),
            Call::Init(v) => b.initial_parameters(v.iter().map(|x| T::of(*x as f64)).collect()),
        };
    }
    b.build()
}

// ---------------------------------------------------------------------------------------
// declarative specification

#[derive(Clone, Copy, Debug, PartialEq, Eq, Hash, PartialOrd, Ord, Serialize, Deserialize)]
pub enum Kind {
    DuplicateParameterNames,
    EmptyParameters,
    FunctionParameterNotInModel,
    InvalidDerivative,
    DuplicateDerivative,
    MissingDerivative,
    EmptyModel,
    UnusedParameter,
    IncorrectParameterCount,
    CommaInParameterNameNotAllowed,
    MissingX,
    MissingInitialParameters,
    IllegalCallToPartialDeriv,
}

pub fn kind_of(e: &ModelBuildError) -> Kind {
    match e {
        ModelBuildError::DuplicateParameterNames { .. } => Kind::DuplicateParameterNames,
        ModelBuildError::EmptyParameters => Kind::EmptyParameters,
        ModelBuildError::FunctionParameterNotInModel { .. } => Kind::FunctionParameterNotInModel,
        ModelBuildError::InvalidDerivative { .. } => Kind::InvalidDerivative,
        ModelBuildError::DuplicateDerivative { .. } => Kind::DuplicateDerivative,
        ModelBuildError::MissingDerivative { .. } => Kind::MissingDerivative,
        ModelBuildError::EmptyModel => Kind::EmptyModel,
        ModelBuildError::UnusedParameter { .. } => Kind::UnusedParameter,
        ModelBuildError::IncorrectParameterCount { .. } => Kind::IncorrectParameterCount,
        ModelBuildError::CommaInParameterNameNotAllowed { .. } => Kind::CommaInParameterNameNotAllowed,
        ModelBuildError::MissingX => Kind::MissingX,
        ModelBuildError::MissingInitialParameters => Kind::MissingInitialParameters,
        ModelBuildError::IllegalCallToPartialDeriv => Kind::IllegalCallToPartialDeriv,
    }
}

fn list_defects(names: &[String], out: &mut Vec<Kind>) {
    if names.is_empty() {
        out.push(Kind::EmptyParameters);
    }
    if names.iter().any(|n| n.contains(',')) {
        out.push(Kind::CommaInParameterNameNotAllowed);
    }
    if (0..names.len()).any(|i| names[..i].contains(&names[i])) {
        out.push(Kind::DuplicateParameterNames);
    }
}

/// one parametrised function together with the derivative calls attached to it
struct FnBlock<'a> {
    names: &'a [String],
    arity: usize,
    derivs: Vec<(&'a str, usize)>,
}

impl FnBlock<'_> {
    fn defects(&self, model: &[String], out: &mut Vec<Kind>) {
        list_defects(self.names, out);
        if self.arity != self.names.len() {
            out.push(Kind::IncorrectParameterCount);
        }
        if self.names.iter().any(|n| !model.contains(n)) {
            out.push(Kind::FunctionParameterNotInModel);
        }
        for (i, (d, ar)) in self.derivs.iter().enumerate() {
            if !self.names.iter().any(|n| n == d) || !model.iter().any(|n| n == d) {
                out.push(Kind::InvalidDerivative);
            }
            if *ar != self.names.len() {
                out.push(Kind::IncorrectParameterCount);
            }
            if self.derivs[..i].iter().any(|(e, _)| e == d) {
                out.push(Kind::DuplicateDerivative);
            }
        }
        if self.names.iter().any(|n| !self.derivs.iter().any(|(d, _)| d == n)) {
            out.push(Kind::MissingDerivative);
        }
    }
    fn valid(&self, model: &[String]) -> bool {
        let mut v = vec![];
        self.defects(model, &mut v);
        v.is_empty()
    }
}

#[derive(Debug, Clone, PartialEq, Eq)]
pub struct SpecResult {
    /// defects present in the call sequence (lenient superset as soon as one is present)
    pub defects: Vec<Kind>,
    /// for valid programs: number of basis functions and of parameters
    pub functions: usize,
    pub parameters: usize,
}

/// The specification: which defects does the call sequence contain? Decided from the
/// sequence alone (property C15's list of requirements), independent of the builder's code.
pub fn specify(prog: &Program) -> SpecResult {
    let mut d: Vec<Kind> = vec![];
    let model = &prog.model_names;
    // model parameter names: non-empty list, unique, comma-free
    list_defects(model, &mut d);
    // group the calls: a function followed directly by its derivative calls
    let mut blocks: Vec<FnBlock> = vec![];
    let mut invariants = 0usize;
    let mut xs = 0usize;
    let mut inits: Vec<usize> = vec![];
    let mut attachable = false; // previous call was function or partial_deriv
    for c in &prog.calls {
        match c {
            Call::Function { names, form } => {
                blocks.push(FnBlock { names, arity: form.arity(), derivs: vec![] });
                attachable = true;
            }
            Call::Deriv { name, form } => {
                if attachable {
                    blocks.last_mut().unwrap().derivs.push((name.as_str(), form.arity()));
                } else {
                    d.push(Kind::IllegalCallToPartialDeriv);
                }
            }
            Call::Invariant { .. } => {
                invariants += 1;
                attachable = false;
            }
            Call::X(_) | Call::XFrom { .. } => {
                xs += 1;
                attachable = false;
            }
            Call::Init(v) => {
                inits.push(v.len());
                attachable = false;
            }
        }
    }
    for b in &blocks {
        b.defects(model, &mut d);
    }
    let valid_blocks: Vec<&FnBlock> = blocks.iter().filter(|b| b.valid(model)).collect();
    // at least one basis function
    if valid_blocks.is_empty() && invariants == 0 {
        d.push(Kind::EmptyModel);
    }
    // every model parameter is used by some function
    if model.iter().any(|p| !valid_blocks.iter().any(|b| b.names.contains(p))) {
        d.push(Kind::UnusedParameter);
    }
    if xs == 0 {
        d.push(Kind::MissingX);
    }
    if inits.is_empty() {
        d.push(Kind::MissingInitialParameters);
    }
    if inits.iter().any(|l| *l != model.len()) {
        d.push(Kind::IncorrectParameterCount);
    }
    d.sort();
    d.dedup();
    SpecResult { defects: d, functions: blocks.len() + invariants, parameters: model.len() }
}

// ---------------------------------------------------------------------------------------
// expected evaluation of a valid program (C16)

pub struct Expected {
    pub n: usize,
    pub m: usize,
    pub p: usize,
    /// (kind, names, form, derivative forms by model index)
    cols: Vec<ExpCol>,
    model: Vec<String>,
    /// first value of the independent variable (the grid is x0, x0+1, ...)
    pub x0: f64,
}
struct ExpCol {
    /// call index of the function (for fault hooks)
    pub call_id: usize,
    names: Vec<String>,
    form: Form,
    /// (model index, call id, form)
    derivs: Vec<(usize, usize, Form)>,
}

impl Expected {
    /// requires a valid program
    pub fn of(prog: &Program) -> Expected {
        let model = prog.model_names.clone();
        let mut cols: Vec<ExpCol> = vec![];
        let mut n = 0;
        // the independent variable of the LAST call counts
        let mut x0 = 0.0;
        for (id, c) in prog.calls.iter().enumerate() {
            match c {
                Call::Function { names, form } => cols.push(ExpCol { call_id: id, names: names.clone(), form: form.clone(), derivs: vec![] }),
                Call::Deriv { name, form } => {
                    let k = model.iter().position(|m| m == name).expect("valid program");
                    cols.last_mut().unwrap().derivs.push((k, id, form.clone()));
                }
                Call::Invariant { tag } => cols.push(ExpCol { call_id: id, names: vec![], form: Form { tag: *tag, q: vec![] }, derivs: vec![] }),
                Call::X(len) => {
                    n = *len;
                    x0 = 0.0;
                }
                Call::XFrom { n: len, start } => {
                    n = *len;
                    x0 = *start as f64;
                }
                Call::Init(_) => {}
            }
        }
        Expected { n, x0, m: cols.len(), p: model.len(), cols, model }
    }
    fn args(&self, names: &[String], alpha: &[f64]) -> Vec<f64> {
        names.iter().map(|nm| alpha[self.model.iter().position(|m| m == nm).unwrap()]).collect()
    }
    /// expected basis matrix (column major, n x m)
    pub fn eval(&self, alpha: &[f64]) -> Vec<f64> {
        let mut out = Vec::with_capacity(self.n * self.m);
        for c in &self.cols {
            let a = self.args(&c.names, alpha);
            for i in 0..self.n {
                out.push(c.form.value(i as f64 + self.x0, &a));
            }
        }
        out
    }
    pub fn deriv(&self, k: usize, alpha: &[f64]) -> Vec<f64> {
        let mut out = Vec::with_capacity(self.n * self.m);
        for c in &self.cols {
            match c.derivs.iter().find(|(idx, _, _)| *idx == k) {
                Some((_, _, f)) => {
                    let a = self.args(&c.names, alpha);
                    for i in 0..self.n {
                        out.push(f.value(i as f64 + self.x0, &a));
                    }
                }
                None => out.extend(std::iter::repeat(0.0).take(self.n)),
            }
        }
        out
    }
    /// call ids of the closures used by eval (functions, in column order)
    pub fn eval_call_ids(&self) -> Vec<usize> {
        self.cols.iter().map(|c| c.call_id).collect()
    }
    /// call ids of the closures used by eval_partial_deriv(k), in column order
    pub fn deriv_call_ids(&self, k: usize) -> Vec<usize> {
        self.cols.iter().filter_map(|c| c.derivs.iter().find(|(idx, _, _)| *idx == k).map(|(_, id, _)| *id)).collect()
    }
}

// ---------------------------------------------------------------------------------------
// generation of valid programs (construction, no rejection)

/// includes near misses (case, trailing blank, prefix) and the empty string: all legal, all distinct
pub const NAME_POOL: [&str; 14] = ["a", "b", "c", "d", "e", "f", "g", "h", "i", "j", "A", "a ", "ab", ""];

/// raw random numbers -> valid program. `l` model parameters, up to `max_fn` functions.
pub fn valid_program(us: &[u16], l: usize, max_fn: usize, max_arity: usize, n: usize) -> Program {
    let pick = crate::engine::pick;
    let mut cur = 0usize;
    let mut next = move || {
        let v = us[cur % us.len()];
        cur += 1;
        v
    };
    // model names: a random arrangement of l pool names
    // (large models, l > 14, get additional generated names p14, p15, ...)
    let mut pool: Vec<String> = NAME_POOL.iter().map(|s| s.to_string()).collect();
    for i in pool.len()..l {
        pool.push(format!("p{i}"));
    }
    for i in 0..pool.len() {
        let r = i + pick(next(), pool.len() - i);
        pool.swap(i, r);
    }
    let model: Vec<String> = pool[..l].to_vec();
    let nfn = 1 + pick(next(), max_fn);
    // parametrised functions: ordered subsets; make sure every parameter is covered
    let mut fn_names: Vec<Vec<String>> = vec![];
    let mut covered = vec![false; l];
    let widest_first = next() % 2 == 0;
    for fi in 0..nfn {
        let a = if fi == 0 && widest_first { max_arity.min(l) } else { 1 + pick(next(), max_arity.min(l)) };
        let mut idx: Vec<usize> = (0..l).collect();
        for i in 0..l {
            let r = i + pick(next(), l - i);
            idx.swap(i, r);
        }
        let names: Vec<String> = idx[..a].iter().map(|&i| model[i].clone()).collect();
        for &i in &idx[..a] {
            covered[i] = true;
        }
        fn_names.push(names);
    }
    // cover the rest with additional functions of arity <= max_arity
    let missing: Vec<usize> = (0..l).filter(|i| !covered[*i]).collect();
    for chunk in missing.chunks(max_arity.max(1)) {
        fn_names.push(chunk.iter().map(|&i| model[i].clone()).collect());
    }
    let mut calls: Vec<Call> = vec![];
    let tag = std::cell::Cell::new(100);
    let bump = || {
        tag.set(tag.get() + 7);
        tag.get()
    };
    let form = |arity: usize, next: &mut dyn FnMut() -> u16| Form { tag: bump(), q: (0..arity).map(|_| 1 + pick(next(), 9) as i32).collect() };
    // where x and init go: anywhere between blocks
    let nblocks = fn_names.len();
    let x_pos = pick(next(), nblocks + 1);
    let init_pos = pick(next(), nblocks + 1);
    let ex = next();
    let early_x: Option<(usize, i32)> = if ex % 4 == 0 { Some((pick(ex, x_pos + 1), 10 + (ex % 7) as i32)) } else { None };
    let inv_pos: Vec<usize> = (0..pick(next(), 3)).map(|_| pick(next(), nblocks + 1)).collect();
    for b in 0..=nblocks {
        // (1 of 4 programs: an earlier call with another grid of the same length, overridden by
        // the real one — nothing may be evaluated on, or remembered from, the first grid)
        if early_x.is_some_and(|(pos, _)| pos == b) {
            calls.push(Call::XFrom { n, start: early_x.unwrap().1 });
        }
        if x_pos == b {
            calls.push(Call::X(n));
        }
        if init_pos == b {
            calls.push(Call::Init((0..l).map(|i| 2 + 3 * i as i32 + pick(next(), 3) as i32).collect()));
        }
        for ip in &inv_pos {
            if *ip == b {
                calls.push(Call::Invariant { tag: bump() });
            }
        }
        if b < nblocks {
            let names = fn_names[b].clone();
            let a = names.len();
            calls.push(Call::Function { names: names.clone(), form: form(a, &mut next) });
            // derivatives in random order
            let mut order: Vec<usize> = (0..a).collect();
            for i in 0..a {
                let r = i + pick(next(), a - i);
                order.swap(i, r);
            }
            for &i in &order {
                calls.push(Call::Deriv { name: names[i].clone(), form: form(a, &mut next) });
            }
        }
    }
    Program { model_names: model, calls }
}

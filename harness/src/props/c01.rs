//! C01 — linear coefficients are the weighted least-squares optimum for the current α.
use super::drive::{drive, traj_strategy, TrajCase};
use super::oracles::{check_state, effective_eps, Lin, RankClass};
use crate::engine::{Check, Fail, Outcome, Property, Tier};
use crate::gen::CaseCfg;
use crate::oracle::linalg::{norm2, Mat};
use crate::Sc;
use proptest::strategy::{BoxedStrategy, Strategy};

pub struct C01;

fn rank_label(c: RankClass) -> &'static str {
    match c {
        RankClass::ClearFull => "rank:clear-full",
        RankClass::ClearDeficient => "rank:clear-deficient",
        RankClass::Ambiguous => "rank:ambiguous",
    }
}

fn run<T: Sc>(case: &TrajCase) -> Check {
    let mut out = Outcome::default();
    // the complex-valued companion problem (varpro's problems are generic over ComplexField)
    if let Some(cc) = &case.cplx {
        super::cplx::check(cc, super::cplx::Claim::Coefficients, &mut out)?;
    }
    let eps = effective_eps::<T>(case.base.eps);
    let mut nontrivial = false;
    let mut classes: Vec<String> = vec![];
    let mut skipped: Vec<String> = vec![];
    let n = case.base.n();
    let m = case.base.spec.m();
    {
        let mut visit = |p: &dyn crate::adapt::Prob<T>, tag: &str| -> Result<(), Fail> {
            let (sk, lin) = check_state(p, eps, tag)?;
            skipped.extend(sk);
            if let Some(lin) = lin {
                classes.push(rank_label(lin.class).to_string());
                if let (Some(c), Some(r)) = (p.coeffs(), p.residuals()) {
                    let _ = c;
                    let rn = norm2(&r.iter().map(|v| v.f()).collect::<Vec<_>>());
                    let bn = lin.b.fro();
                    if n > m && rn > 1e-6 * bn && lin.class != RankClass::Ambiguous {
                        nontrivial = true;
                    }
                }
            } else {
                // tame parameters must evaluate: absence at a caller-chosen tame α is only
                // legitimate if the weighted basis matrix is not finite
                if !tag.starts_with("optimizer") && tag != "after optimizer" {
                    if let Ok(l) = Lin::new(p, eps) {
                        // only for well-scaled matrices: a decomposition may legitimately give
                        // up on matrices with an extreme dynamic range of entries
                        if l.a.max_abs() > 1e3 {
                            skipped.push("c01.absent:badly-scaled-matrix".into());
                            return Ok(());
                        }
                        return Err(Fail::new("c01.absent", format!("{tag}: the model evaluates to a finite basis matrix but no coefficients are reported")));
                    }
                }
            }
            Ok(())
        };
        drive::<T>(&case.base, &case.updates, case.lm.as_ref(), &mut visit)?;
    }
    // linearity in the observations (same α, same weights, three problems)
    {
        let p1 = case.base.build::<T>().map_err(|e| Fail::new("build", e))?;
        let mut c2 = case.base.clone();
        c2.y = case.y2.clone();
        let p2 = c2.build::<T>().map_err(|e| Fail::new("build", e))?;
        let mut c3 = case.base.clone();
        let (ca, cb) = (T::of(case.ca), T::of(case.cb));
        c3.y = case
            .base
            .y
            .iter()
            .zip(&case.y2)
            .map(|(a, b)| a.iter().zip(b).map(|(u, v)| (ca * T::of(*u) + cb * T::of(*v)).f()).collect())
            .collect();
        let p3 = c3.build::<T>().map_err(|e| Fail::new("build", e))?;
        if let (Some(k1), Some(k2), Some(k3), Ok(lin)) = (p1.coeffs(), p2.coeffs(), p3.coeffs(), Lin::new(p1.as_ref(), eps)) {
            let (k1, k2, k3) = (Mat::from_na(&k1), Mat::from_na(&k2), Mat::from_na(&k3));
            // smallest singular value that may have been kept
            let s_low = if lin.maybe_kept == 0 { f64::INFINITY } else { lin.svd.s[lin.maybe_kept - 1] - lin.delta };
            let s_low = s_low.max(eps);
            if s_low > 0.0 && k1.all_finite() && k2.all_finite() && k3.all_finite() {
                let b1 = Lin::new(p1.as_ref(), eps).map(|l| l.b).unwrap();
                let b2 = Lin::new(p2.as_ref(), eps).map(|l| l.b).unwrap();
                for col in 0..lin.s {
                    let scale = ca.f().abs() * norm2(b1.col(col)) + cb.f().abs() * norm2(b2.col(col));
                    let bound = lin.k() * lin.ut * scale / s_low + f64::MIN_POSITIVE;
                    let diff: Vec<f64> = (0..lin.m).map(|i| k3.at(i, col) - (ca.f() * k1.at(i, col) + cb.f() * k2.at(i, col))).collect();
                    let dn = norm2(&diff);
                    if !(dn <= bound) {
                        return Err(Fail::new(
                            "c01.linearity",
                            format!("column {col}: |C(aY1+bY2) - (aC(Y1)+bC(Y2))| = {dn:e} > {bound:e} (a={}, b={}, smallest kept sigma >= {s_low:e})", case.ca, case.cb),
                        ));
                    }
                }
                out.class("linearity:checked");
            } else {
                out.skip("c01.linearity:zero-threshold-or-nonfinite");
            }
        }
    }
    out.nontrivial = nontrivial;
    classes.sort();
    classes.dedup();
    for c in classes {
        out.class(c);
    }
    out.class(case.base.weight_class());
    out.class(crate::gen::s_label(case.base.s()));
    out.class(match case.base.eps {
        None => "eps:default",
        Some(e) if e == 0.0 => "eps:zero",
        Some(e) if e < 0.0 => "eps:negative",
        Some(_) => "eps:positive",
    });
    out.class(case.base.flavour());
    for r in case.base.regime() {
        out.class(r);
    }
    if case.lm.is_some() {
        out.class("history:optimizer");
    }
    skipped.sort();
    skipped.dedup();
    for s in skipped {
        out.skip(s);
    }
    Ok(out)
}

impl Property for C01 {
    type Case = TrajCase;
    fn id(&self) -> &'static str {
        "C01"
    }
    fn regimes(&self) -> &'static str {
        crate::gen::REGIMES_CATALOGUE
    }
    fn rule(&self) -> String {
        "proptest: ModelSpec (catalogue terms, shared parameters, exact duplicates, exact and near parameter collisions) x tame alpha x random Y (N x S) x weight class x epsilon class x {f32,f64} x {builder,hand} x {seq,par} x {srhs,mrhs}; states visited at construction, after caller updates and at every alpha of an LM run (probe). Oracle: truncated normal equations, minimum norm, forward comparison with an independent f64 Jacobi-SVD pseudo-inverse (kappa-gated), linearity in Y. Non-trivial: N > M, |r| > 1e-6 |W Y| at some visited state and the rank class is not ambiguous; distinct = distinct case fingerprints One case in eight carries a complex-valued companion problem (damped complex oscillations built with SeparableModelBuilder<Complex<f64>>, complex weights, all four constructors, caller updates): normal equations and forward comparison on the real embedding, with the harness' real Jacobi SVD applied to [Re A, -Im A; Im A, Re A].".into()
    }
    fn assumptions(&self) -> Vec<String> {
        vec![
            "Phi is the model's own evaluation (whether builder-made models evaluate the right thing is C16)".into(),
            "rounding tolerance K*u_T with K = 64(N+M); forward comparisons only when K*u_T*kappa <= 1e-3".into(),
        ]
    }
    fn cases(&self, tier: Tier) -> usize {
        match tier {
            Tier::Quick => 150_000,
            Tier::Thorough => 6_000_000,
        }
    }
    fn strategy(&self, _tier: Tier) -> BoxedStrategy<TrajCase> {
        traj_strategy(CaseCfg::default(), 3, 5).boxed()
    }
    fn pool_of(&self, case: &Self::Case) -> Option<usize> {
        case.base.pool_size()
    }
    fn check(&self, case: &TrajCase) -> Check {
        if case.base.f32 {
            run::<f32>(case)
        } else {
            run::<f64>(case)
        }
    }
}

//! C02 — residuals, best fit, weighted data and coefficients describe one single state.
use super::drive::{drive, traj_strategy, LmCfg, TrajCase};
use super::oracles::{check_weighted_data, effective_eps, Lin};
use crate::adapt::Prob;
use crate::engine::{Check, Fail, Outcome, Property, Tier};
use crate::gen::CaseCfg;
use crate::oracle::linalg::{norm2, Mat};
use crate::sc::same_bits;
use crate::Sc;
use proptest::strategy::{BoxedStrategy, Strategy};

pub struct C02;

/// residual identity + weighted data + parameter report for one state
pub fn check_c02_state<T: Sc>(p: &dyn Prob<T>, case: &crate::gen::ProblemCase, eps: f64, expect_params: Option<&[T]>, tag: &str) -> Result<(bool, Option<Lin>), Fail> {
    // weighted data equal W∘Y for the observations exactly as supplied
    let y = case.ymat::<T>();
    let w: Option<Vec<T>> = case.w.as_ref().map(|w| w.iter().map(|v| T::of(*v)).collect());
    check_weighted_data(p, &y, w.as_deref(), tag)?;
    // the reported parameters are the ones all quantities were computed for
    let params = p.params();
    let mparams = p.model_params();
    if params.len() != mparams.len() || params.iter().zip(&mparams).any(|(a, b)| !same_bits(*a, *b)) {
        return Err(Fail::new("c02.params_vs_model", format!("{tag}: problem.params() = {params:?} differs from the model's parameters {mparams:?}")));
    }
    if let Some(exp) = expect_params {
        if params.len() != exp.len() || params.iter().zip(exp).any(|(a, b)| !same_bits(*a, *b)) {
            return Err(Fail::new("c02.params_reported", format!("{tag}: parameters {exp:?} were applied but params() reports {params:?}")));
        }
    }
    match (p.coeffs(), p.residuals()) {
        (Some(c), Some(r)) => {
            let lin = match Lin::new(p, eps) {
                Ok(l) => l,
                Err(_) => return Ok((false, None)),
            };
            let cm = Mat::from_na(&c);
            let rv: Vec<f64> = r.iter().map(|v| v.f()).collect();
            lin.check_residuals(&cm, &rv, tag)?;
            let nonzero = norm2(&rv) > 1e-6 * lin.b.fro();
            Ok((nonzero, Some(lin)))
        }
        (None, None) => Ok((false, None)),
        (c, r) => Err(Fail::new("state.half_present", format!("{tag}: coefficients present = {}, residuals present = {}", c.is_some(), r.is_some()))),
    }
}

/// checks on the result of LevMarSolver::fit
pub fn check_fit_result<T: Sc>(fo: &crate::adapt::FitOut<T>, case: &crate::gen::ProblemCase, eps: f64) -> Result<(), Fail> {
    let p = fo.problem.as_ref();
    let sh = p.shape();
    // nonlinear_parameters() = problem.params() = what the model reports
    let pp = p.params();
    if fo.alpha.len() != pp.len() || fo.alpha.iter().zip(&pp).any(|(a, b)| !same_bits(*a, *b)) {
        return Err(Fail::new("c02.fit_params", format!("FitResult::nonlinear_parameters() = {:?} but the returned problem reports {:?}", fo.alpha, pp)));
    }
    if fo.vector_typed == case.mrhs {
        return Err(Fail::new("c02.fit_types", "best_fit()/linear_coefficients() have the wrong static shape for this problem flavour".to_string()));
    }
    // coefficients of the result are those of the problem
    match (&fo.coeffs, p.coeffs()) {
        (Some(a), Some(b)) => {
            if a.shape() != b.shape() || a.iter().zip(b.iter()).any(|(x, y)| !same_bits(*x, *y)) {
                return Err(Fail::new("c02.fit_coeffs", "FitResult::linear_coefficients() differs from the returned problem's coefficients".to_string()));
            }
        }
        (None, None) => {}
        (a, b) => {
            return Err(Fail::new("c02.fit_coeffs", format!("FitResult::linear_coefficients() present = {}, problem's present = {}", a.is_some(), b.is_some())));
        }
    }
    // best fit = Phi(alpha_hat) * C_hat in the shape of the observations
    match (&fo.best_fit, &fo.coeffs) {
        (Some(bf), Some(c)) => {
            if bf.nrows() != sh.n || bf.ncols() != sh.s {
                return Err(Fail::new("c02.best_fit_shape", format!("best_fit is {}x{}, observations are {}x{}", bf.nrows(), bf.ncols(), sh.n, sh.s)));
            }
            if let Ok(phi) = p.phi() {
                let phi = Mat::from_na(&phi);
                let cm = Mat::from_na(c);
                if phi.all_finite() && cm.all_finite() {
                    let want = phi.mul(&cm);
                    let absw = phi.abs_mul(&cm);
                    let kc = 8.0 * (sh.m as f64 + 4.0);
                    for j in 0..sh.s {
                        for i in 0..sh.n {
                            let got = bf[(i, j)].f();
                            let bound = kc * T::unit() * absw.at(i, j) + kc * T::min_positive_value().f();
                            if !((got - want.at(i, j)).abs() <= bound) {
                                return Err(Fail::new(
                                    "c02.best_fit_value",
                                    format!("best_fit[{i},{j}] = {got:e} but (Phi(alpha) C)[{i},{j}] = {:e} (bound {bound:e}); unweighted model values expected", want.at(i, j)),
                                ));
                            }
                        }
                    }
                }
            }
        }
        (None, None) => {}
        (Some(_), None) => return Err(Fail::new("c02.best_fit_presence", "best_fit present without coefficients".to_string())),
        (None, Some(_)) => {
            // legitimate only if the model does not evaluate
            if p.phi().is_ok() {
                return Err(Fail::new("c02.best_fit_presence", "coefficients present and the model evaluates, but best_fit() is None".to_string()));
            }
        }
    }
    // the returned problem obeys the residual identity
    check_c02_state(p, case, eps, None, "returned problem")?;
    Ok(())
}

fn run<T: Sc>(case: &TrajCase) -> Check {
    let mut out = Outcome::default();
    // the complex-valued companion problem (varpro's problems are generic over ComplexField)
    if let Some(cc) = &case.cplx {
        super::cplx::check(cc, super::cplx::Claim::Residuals, &mut out)?;
    }
    let eps = effective_eps::<T>(case.base.eps);
    let mut nonzero_seen = false;
    let mut n_states = 0;
    {
        let updates: Vec<Vec<T>> = case.updates.iter().map(|u| u.iter().map(|v| T::of(*v)).collect()).collect();
        let init: Vec<T> = case.base.alphas();
        let mut visit = |p: &dyn Prob<T>, tag: &str| -> Result<(), Fail> {
            let expect: Option<&[T]> = if tag == "construction" {
                Some(&init)
            } else if let Some(rest) = tag.strip_prefix("caller update ") {
                let i: usize = rest.parse().unwrap();
                Some(&updates[i])
            } else {
                None
            };
            let (nz, _) = check_c02_state(p, &case.base, eps, expect, tag)?;
            nonzero_seen |= nz;
            n_states += 1;
            Ok(())
        };
        drive::<T>(&case.base, &case.updates, case.lm.as_ref(), &mut visit)?;
    }
    // a real fit through LevMarSolver::fit on an identically built problem
    let lm = case.lm.clone().unwrap_or_else(LmCfg::default_like);
    let prob = case.base.build::<T>().map_err(|e| Fail::new("build", e))?;
    let fo = prob.fit(&lm.resolved::<T>().solver::<T>());
    check_fit_result(&fo, &case.base, eps)?;
    out.class(format!("fit:{}", fo.report.term.tag()));
    let nonunit = matches!(case.base.weight_class(), "w:positive" | "w:zeros" | "w:negative");
    out.nontrivial = (nonunit || case.base.s() > 1) && nonzero_seen && n_states >= 3;
    out.class(case.base.weight_class());
    out.class(crate::gen::s_label(case.base.s()));
    out.class(case.base.flavour());
    for r in case.base.regime() {
        out.class(r);
    }
    out.class(format!("updates={}", case.updates.len().min(4)));
    if case.lm.is_some() {
        out.class("history:optimizer");
    }
    Ok(out)
}

impl Property for C02 {
    type Case = TrajCase;
    fn id(&self) -> &'static str {
        "C02"
    }
    fn regimes(&self) -> &'static str {
        crate::gen::REGIMES_CATALOGUE
    }
    fn rule(&self) -> String {
        "proptest: problem cases as for C01 plus histories of 0..6 caller updates and LM-driven histories (probe wrapper; small patience so that rejected-step endings occur) and one LevMarSolver::fit per case. Oracle after every update: residuals() = column-major stack of W∘Y − (W∘Phi(alpha))·C recomputed in f64 (componentwise bound), weighted_data() = W∘Y within 2 ulp, params() = applied alpha = model's alpha (bitwise); after fit: best_fit() = Phi(alpha_hat)·C_hat in the observations' shape, nonlinear_parameters() = problem.params(). Non-trivial: (non-unit weights or S>1) and a non-zero residual and >= 3 visited states One case in eight carries a complex-valued companion problem (damped complex oscillations built with SeparableModelBuilder<Complex<f64>>, complex weights, all four constructors, caller updates): weighted data and residual identity, with the harness' real Jacobi SVD applied to [Re A, -Im A; Im A, Re A].".into()
    }
    fn assumptions(&self) -> Vec<String> {
        vec!["Phi is the model's own evaluation".into(), "componentwise rounding bound 8(M+4) u_T (|W Y| + |W Phi||C|)".into()]
    }
    fn cases(&self, tier: Tier) -> usize {
        match tier {
            Tier::Quick => 30_000,
            Tier::Thorough => 3_000_000,
        }
    }
    fn strategy(&self, _tier: Tier) -> BoxedStrategy<TrajCase> {
        traj_strategy(CaseCfg::default(), 6, 8).boxed()
    }
    fn pool_of(&self, case: &Self::Case) -> Option<usize> {
        case.base.pool_size()
    }
    fn check(&self, case: &TrajCase) -> Check {
        if case.base.f32 {
            run::<f32>(case)
        } else {
            run::<f64>(case)
        }
    }
}

//! C03 — the Jacobian is the Kaufman variable-projection Jacobian of the residuals.
use super::drive::{drive, traj_strategy, TrajCase};
use super::oracles::{check_jacobian, effective_eps, weighted_dkc, Lin, RankClass};
use crate::adapt::{build_problem, Prob};
use crate::engine::{Check, Fail, Outcome, Property, Tier};
use crate::gen::{CaseCfg, SpecCfg};
use crate::models::{builder_model, BFault, Ctl, HandModel, NEVER};
use crate::oracle::linalg::{norm2, svd, Mat};
use crate::sc::same_bits;
use crate::Sc;
use proptest::strategy::{BoxedStrategy, Strategy};
use std::sync::atomic::Ordering::SeqCst;

pub struct C03;

/// projected objective f(alpha) = sum_s |(I - P(alpha)) W y_s|^2 evaluated by the oracle
/// (catalogue in f64, Jacobi SVD); None if A(alpha) is not clearly of full rank
fn projected_objective(case: &crate::gen::ProblemCase, w: &[f64], b: &Mat, alpha: &[f64], eps: f64, ut: f64) -> Option<f64> {
    let n = case.n();
    let m = case.spec.m();
    let mut phi = Mat::zeros(n, m);
    for j in 0..m {
        let col = case.spec.eval_col::<f64>(j, &case.x, alpha);
        phi.col_mut(j).copy_from_slice(&col);
    }
    let a = phi.row_scale(w);
    if !a.all_finite() {
        return None;
    }
    let s = svd(&a);
    if s.smin() <= 100.0 * eps.max(64.0 * (n + m) as f64 * ut * s.smax()) {
        return None;
    }
    let r = b.sub(&s.project_range(b, m));
    Some(r.d.iter().map(|v| v * v).sum())
}

fn gradient_check<T: Sc>(p: &dyn Prob<T>, case: &crate::gen::ProblemCase, lin: &Lin, c: &Mat, jac: &nalgebra::DMatrix<T>, res: &[f64], tag: &str, out_skips: &mut Vec<String>) -> Result<bool, Fail> {
    let sh = p.shape();
    let alpha: Vec<f64> = p.params().iter().map(|v| v.f()).collect();
    let rn = norm2(res);
    let mut any_nonstationary = false;
    // finite differences of the projected objective are only trustworthy when the projector
    // varies slowly over the step, i.e. for moderately conditioned A
    if lin.kf() * lin.ut * lin.kappa_kept() > super::oracles::FORWARD_GATE || lin.kappa_kept() > 1e3 {
        out_skips.push("c03.gradient:kappa-gate".into());
        // stationarity can still be classified
        for k in 0..sh.p {
            let jk: Vec<f64> = (0..sh.n * sh.s).map(|i| jac[(i, k)].f()).collect();
            if crate::oracle::linalg::dot(&jk, res).abs() > 1e-6 * norm2(&jk) * rn {
                any_nonstationary = true;
            }
        }
        return Ok(any_nonstationary);
    }
    for k in 0..sh.p {
        let jk: Vec<f64> = (0..sh.n * sh.s).map(|i| jac[(i, k)].f()).collect();
        let g = 2.0 * crate::oracle::linalg::dot(&jk, res);
        let jn = norm2(&jk);
        let h = 1e-3 * alpha[k].abs().max(0.1);
        let d = |hh: f64| -> Option<f64> {
            let mut ap = alpha.clone();
            let mut am = alpha.clone();
            ap[k] += hh;
            am[k] -= hh;
            let fp = projected_objective(case, &lin.w, &lin.b, &ap, lin.eps, lin.ut)?;
            let fm = projected_objective(case, &lin.w, &lin.b, &am, lin.eps, lin.ut)?;
            Some((fp - fm) / (2.0 * hh))
        };
        let (Some(d1), Some(d2), Some(d4)) = (d(h), d(h / 2.0), d(h / 4.0)) else {
            out_skips.push("c03.gradient:rank-changes-nearby".into());
            continue;
        };
        // two Richardson extrapolations that must agree with each other
        let gr1 = (4.0 * d2 - d1) / 3.0;
        let gr = (4.0 * d4 - d2) / 3.0;
        let err_est = (gr - gr1).abs() + 0.01 * (d4 - d2).abs();
        let scale = 2.0 * jn * rn + gr.abs();
        if scale == 0.0 {
            continue;
        }
        // rounding noise of the difference quotient: f ~ |B|^2 is evaluated with relative
        // error of a few (N+M) u_f64, divided by 2h (smallest step h/4)
        let bn2 = lin.b.fro() * lin.b.fro();
        let fd_round = 64.0 * (sh.n + sh.m) as f64 * f64::EPSILON * bn2 / (h / 4.0);
        if err_est + fd_round > 1e-4 * scale {
            out_skips.push("c03.gradient:fd-error-estimate-too-large".into());
            continue;
        }
        let kappa = lin.kappa_kept();
        // rounding of J_k = P v - v is relative to |v_k| = |W D_k C| (cancellation when v_k lies
        // almost in range(A)); calibration: the same quantity from the reference pipeline
        let (vn, ref_dev) = match weighted_dkc(p, lin, c, k) {
            Ok(v) if v.all_finite() => {
                let dev = match (&lin.u_ref, &lin.c_ref) {
                    (Some(u), Some(cr)) if cr.all_finite() => {
                        let jr = u.mul(&u.t().mul(&v)).sub(&v);
                        let rr = lin.b.sub(&lin.a.mul(cr));
                        let gref = 2.0 * crate::oracle::linalg::dot(&jr.d, &rr.d);
                        4.0 * (gref - gr).abs()
                    }
                    _ => 0.0,
                };
                (v.fro(), dev)
            }
            _ => (jn, 0.0),
        };
        let tol = (100.0 * (err_est + fd_round) + (1e-7 + lin.kf() * lin.ut * kappa) * (scale + 2.0 * vn * rn)).max(ref_dev);
        if !((g - gr).abs() <= tol) {
            return Err(Fail::new(
                "c03.gradient",
                format!("{tag}: parameter {k}: 2 J^T r = {g:e} but the finite-difference gradient of |r(alpha)|^2 is {gr:e} (tolerance {tol:e}, fd error estimate {err_est:e}, kappa {kappa:e})"),
            ));
        }
        if g.abs() > 1e-6 * 2.0 * jn * rn {
            any_nonstationary = true;
        }
    }
    Ok(any_nonstationary)
}

/// (e): a failing derivative at any position must give None, never a partial Jacobian
fn derivative_failure_check<T: Sc>(case: &crate::gen::ProblemCase, out: &mut Outcome) -> Result<(), Fail> {
    let x: Vec<T> = case.xs();
    let a: Vec<T> = case.alphas();
    let bd = case.build_cfg::<T>();
    let p = case.spec.p;
    if case.hand {
        let ctl = Ctl::new();
        let model = HandModel::with_ctl(&case.spec, &x, &a, ctl.clone());
        let prob = build_problem(model, &bd).map_err(|e| Fail::new("build", e))?;
        let Some(j0) = prob.jacobian() else { return Ok(()) };
        for persistent in [false, true] {
            for j in 0..p {
                ctl.arm(ctl.total() + j, persistent, false);
                let got = prob.jacobian();
                let fired = ctl.fired.swap(0, SeqCst);
                ctl.disarm();
                if fired == 0 {
                    return Err(Fail::new("harness", "derivative fault did not fire".to_string()));
                }
                if got.is_some() {
                    return Err(Fail::new(
                        "c03.partial_jacobian",
                        format!("derivative call {j} of jacobian() failed ({}), but a Jacobian was produced", if persistent { "persistent" } else { "transient" }),
                    ));
                }
                out.count("derivative_faults_injected", 1);
            }
        }
        // and afterwards the Jacobian is available again and identical
        match prob.jacobian() {
            Some(j1) if j1.shape() == j0.shape() && j1.iter().zip(j0.iter()).all(|(a, b)| same_bits(*a, *b)) => {}
            _ => return Err(Fail::new("c03.after_fault", "after transient derivative failures the Jacobian is not reproduced".to_string())),
        }
    } else {
        let fault = BFault::new();
        let model = builder_model(&case.spec, &x, &a, Some(fault.clone()), case.reverse_derivs).map_err(|e| Fail::new("build", format!("{e:?}")))?;
        let prob = build_problem(model, &bd).map_err(|e| Fail::new("build", e))?;
        let c0 = fault.calls.load(SeqCst);
        let Some(_j0) = prob.jacobian() else { return Ok(()) };
        let per_jac = fault.calls.load(SeqCst) - c0;
        let n = case.n();
        for j in 0..per_jac {
            for wrong in [0usize, n + 1, n.saturating_sub(1)] {
                if wrong == n {
                    continue;
                }
                if case.par {
                    // call order is not deterministic in the parallel flavour: break all
                    fault.arm(fault.calls.load(SeqCst) + j, true, wrong);
                } else {
                    fault.arm(fault.calls.load(SeqCst) + j, false, wrong);
                }
                let got = prob.jacobian();
                let fired = fault.fired.swap(0, SeqCst);
                fault.arm(NEVER, false, 0);
                if fired == 0 {
                    return Err(Fail::new("harness", "builder derivative fault did not fire".to_string()));
                }
                if got.is_some() {
                    return Err(Fail::new("c03.partial_jacobian", format!("a derivative closure returned length {wrong} instead of {n} (call {j} of jacobian()), but a Jacobian was produced")));
                }
                out.count("derivative_faults_injected", 1);
            }
        }
    }
    Ok(())
}

fn run<T: Sc>(case: &TrajCase) -> Check {
    let mut out = Outcome::default();
    // the complex-valued companion problem (varpro's problems are generic over ComplexField)
    if let Some(cc) = &case.cplx {
        super::cplx::check(cc, super::cplx::Claim::Jacobian, &mut out)?;
    }
    let eps = effective_eps::<T>(case.base.eps);
    let mut skipped: Vec<String> = vec![];
    let mut nontrivial = false;
    let mut full_states = 0u64;
    let special = case.base.s() > 1 || case.base.spec.has_shared_param() || matches!(case.base.weight_class(), "w:positive" | "w:zeros" | "w:negative");
    {
        let mut visit = |p: &dyn Prob<T>, tag: &str| -> Result<(), Fail> {
            let (Some(c), Some(r)) = (p.coeffs(), p.residuals()) else {
                if p.jacobian().is_some() {
                    return Err(Fail::new("c03.jacobian_without_state", format!("{tag}: a Jacobian is reported although residuals/coefficients are absent")));
                }
                return Ok(());
            };
            let Ok(lin) = Lin::new(p, eps) else { return Ok(()) };
            let cm = Mat::from_na(&c);
            if !cm.all_finite() || !lin.b.all_finite() {
                return Ok(());
            }
            let jac = match p.jacobian() {
                Some(j) => j,
                None => {
                    // legitimate only if some derivative fails to evaluate
                    for k in 0..p.shape().p {
                        if p.dphi(k).is_err() {
                            return Ok(());
                        }
                    }
                    return Err(Fail::new("c03.absent", format!("{tag}: state present and all derivatives evaluate, but jacobian() is None")));
                }
            };
            skipped.extend(check_jacobian(p, &lin, &cm, &jac, tag)?);
            if lin.class == RankClass::ClearFull {
                full_states += 1;
                let rv: Vec<f64> = r.iter().map(|v| v.f()).collect();
                let caller_state = tag == "construction" || tag.starts_with("caller");
                let mut nonstat = false;
                if caller_state {
                    nonstat = gradient_check(p, &case.base, &lin, &cm, &jac, &rv, tag, &mut skipped)?;
                }
                let some_v = (0..p.shape().p).any(|k| weighted_dkc(p, &lin, &cm, k).map(|v| v.fro() > 0.0).unwrap_or(false));
                if some_v && nonstat && special {
                    nontrivial = true;
                }
            }
            Ok(())
        };
        drive::<T>(&case.base, &case.updates, case.lm.as_ref(), &mut visit)?;
    }
    derivative_failure_check::<T>(&case.base, &mut out)?;
    out.nontrivial = nontrivial;
    out.count("clear_full_rank_states", full_states);
    out.class(case.base.weight_class());
    out.class(crate::gen::s_label(case.base.s()));
    out.class(case.base.flavour());
    for r in case.base.regime() {
        out.class(r);
    }
    if case.base.spec.has_shared_param() {
        out.class("shared-parameter");
    }
    skipped.sort();
    skipped.dedup();
    for s in skipped {
        out.skip(s);
    }
    Ok(out)
}

impl Property for C03 {
    type Case = TrajCase;
    fn id(&self) -> &'static str {
        "C03"
    }
    fn regimes(&self) -> &'static str {
        crate::gen::REGIMES_CATALOGUE
    }
    fn rule(&self) -> String {
        "proptest: problem cases as for C01 (no deliberately duplicated terms; shared parameters arise whenever P < total arity), visited at construction, after caller updates and along an LM run. Oracle per Jacobian column k and right-hand side s, under the full-rank premise (rank class clear-full): (a) |A^T J_k| ~ 0 (kappa-free), (b) J_k + W D_k C in range(A), (c) J_k = -(I-P) W D_k C with the harness' own projector, (d) 2 J^T r against Richardson-extrapolated central differences of the oracle's projected objective, (e) every derivative call of jacobian() made to fail in turn (hand-written: injected errors, transient and persistent; builder-made: wrong-length closures) must give None. Non-trivial: clear-full, some W D_k C != 0, not stationary, and S>1 or shared parameter or non-unit weights One case in eight carries a complex-valued companion problem (damped complex oscillations built with SeparableModelBuilder<Complex<f64>>, complex weights, all four constructors, caller updates): orthogonality to the range and the Kaufman formula with the projector U U^H, with the harness' real Jacobi SVD applied to [Re A, -Im A; Im A, Re A].".into()
    }
    fn assumptions(&self) -> Vec<String> {
        vec![
            "D_k is the model's own derivative evaluation; the finite-difference oracle uses the catalogue formulas in f64".into(),
            "rank-deficient states are outside the property's premise: only shape/no-panic is checked there".into(),
        ]
    }
    fn cases(&self, tier: Tier) -> usize {
        match tier {
            Tier::Quick => 60_000,
            Tier::Thorough => 3_000_000,
        }
    }
    fn strategy(&self, _tier: Tier) -> BoxedStrategy<TrajCase> {
        let cfg = CaseCfg { spec: SpecCfg { allow_duplicates: false, ..SpecCfg::default() }, collisions: false, ..CaseCfg::default() };
        traj_strategy(cfg, 3, 5).boxed()
    }
    fn pool_of(&self, case: &Self::Case) -> Option<usize> {
        case.base.pool_size()
    }
    fn check(&self, case: &TrajCase) -> Check {
        if case.base.f32 {
            run::<f32>(case)
        } else {
            run::<f64>(case)
        }
    }
}

//! C04 — fit() reports success truthfully and returns a coherent, no-worse final state.
use super::c02::check_fit_result;
use super::drive::{lm_strategy, LmCfg};
use super::oracles::{check_state, effective_eps};
use crate::adapt::{Prob, ProbeEv};
use crate::engine::{pick, Check, Fail, Outcome, Property, Tier};
use crate::gen::{case_strategy, family_strategy, CaseCfg, FamCfg, ProblemCase};
use crate::models::Ctl;
use crate::Sc;
use proptest::prelude::*;
use serde::{Deserialize, Serialize};
use std::sync::atomic::Ordering::SeqCst;

pub struct C04;

#[derive(Clone, Debug, Serialize, Deserialize)]
pub struct C04Case {
    pub base: ProblemCase,
    pub lm: LmCfg,
}

fn half_ssq<T: Sc>(r: &[T]) -> f64 {
    0.5 * r.iter().map(|v| v.f() * v.f()).sum::<f64>()
}

fn run<T: Sc>(case: &C04Case) -> Check {
    let mut out = Outcome::default();
    let base = &case.base;
    let eps = effective_eps::<T>(base.eps);
    let lm = case.lm.resolved::<T>();
    let solver = lm.solver::<T>();
    let p = base.spec.p;
    let budget = lm.budget(p);

    // probe variant: classify the trial steps (accepted = followed by a Jacobian request)
    let mut events: Vec<ProbeEv> = vec![];
    {
        let prob = base.build::<T>().map_err(|e| Fail::new("build", e))?;
        let mut cb = |_p: &dyn Prob<T>, ev: ProbeEv, _: &[T]| {
            if matches!(ev, ProbeEv::AfterSet | ProbeEv::Jacobian) {
                events.push(ev);
            }
        };
        let _ = prob.minimize_probed(&solver, &mut cb);
    }
    let mut accepted = 0;
    let mut rejected = 0;
    for (i, ev) in events.iter().enumerate() {
        if *ev == ProbeEv::AfterSet {
            if events.get(i + 1) == Some(&ProbeEv::Jacobian) {
                accepted += 1;
            } else {
                rejected += 1;
            }
        }
    }

    // the real thing: LevMarSolver::fit
    let ctl = Ctl::new();
    let prob = base.build_at::<T>(None, Some(ctl.clone())).map_err(|e| Fail::new("build", e))?;
    let r0 = prob.residuals();
    let (set0, eval0, der0) = (ctl.n_set.load(SeqCst), ctl.n_eval.load(SeqCst), ctl.n_deriv.load(SeqCst));
    let fo = prob.fit(&solver);
    let (sets, evals, ders) = (ctl.n_set.load(SeqCst) - set0, ctl.n_eval.load(SeqCst) - eval0, ctl.n_deriv.load(SeqCst) - der0);

    // (1) Ok exactly for the successful termination reasons
    let success = fo.report.term.counts_as_success();
    if fo.ok != success {
        return Err(Fail::new("c04.verdict", format!("fit() returned {} for termination {:?}", if fo.ok { "Ok" } else { "Err" }, fo.report.term)));
    }
    if fo.was_successful != success {
        return Err(Fail::new("c04.was_successful", format!("was_successful() = {} for termination {:?}", fo.was_successful, fo.report.term)));
    }
    // (3) evaluation budget of the supplied configuration
    if fo.report.evals > budget.max(1) {
        return Err(Fail::new("c04.budget", format!("{} evaluations reported, the supplied configuration allows patience·(P+1) = {}", fo.report.evals, budget)));
    }
    if base.hand {
        // the harness' own best_fit() call costs one model evaluation
        let harness_evals = usize::from(fo.best_fit.is_some());
        if sets > budget || evals > budget + harness_evals || ders > budget * p {
            return Err(Fail::new(
                "c04.model_calls",
                format!("during fit the model saw {sets} set_params, {evals} eval and {ders} derivative calls; the budget patience·(P+1) is {budget} (report: {} evaluations)", fo.report.evals),
            ));
        }
        out.max("model_set_params_over_budget_ratio", sets as f64 / budget as f64);
    }
    // (2) a successful result is coherent and no worse than the start
    if fo.ok {
        check_fit_result(&fo, base, eps)?;
        let (skipped, _) = check_state(fo.problem.as_ref(), eps, "successful fit")?;
        for s in skipped {
            out.skip(s);
        }
        let Some(r) = fo.problem.residuals() else {
            return Err(Fail::new("c04.no_residuals", "successful fit without residuals".to_string()));
        };
        let obj = half_ssq(&r);
        let tol = (r.len() as f64 + 64.0) * T::unit();
        let rep = fo.report.objective.f();
        // ½|r|² beyond the largest finite value of the scalar type (f32 with weights of 1e12: 1e44)
        // cannot be reported in that type: nothing is demanded of the number
        let representable = |v: f64| v <= T::huge() / 4.0;
        if !representable(obj) || r0.as_ref().is_some_and(|r0| !representable(half_ssq(r0))) {
            out.skip("c04.objective:beyond-the-range-of-the-scalar-type");
        } else if !((rep - obj).abs() <= tol * obj + 8.0 * T::min_positive_value().f()) {
            return Err(Fail::new("c04.objective", format!("reported objective {rep:e} differs from ½|residuals|² = {obj:e} of the returned problem")));
        }
        match &r0 {
            Some(r0) => {
                let obj0 = half_ssq(r0);
                if representable(obj) && representable(obj0) && !(obj <= obj0 * (1.0 + tol) + 8.0 * T::min_positive_value().f()) {
                    return Err(Fail::new("c04.worse_than_start", format!("objective after a successful fit {obj:e} exceeds the objective at the initial guess {obj0:e}")));
                }
            }
            None => return Err(Fail::new("c04.ok_without_start", "fit is Ok although the problem had no residuals at the initial guess".to_string())),
        }
    }
    out.nontrivial = (accepted >= 1 && rejected >= 1) || !fo.ok;
    out.class(format!("term:{}", fo.report.term.tag()));
    out.class(if accepted >= 1 && rejected >= 1 { "steps:accepted+rejected" } else if rejected >= 1 { "steps:only-rejected" } else { "steps:only-accepted" });
    if events.last() == Some(&ProbeEv::AfterSet) && events.len() >= 2 {
        out.class("ends-on-set_params(re-applied or rejected)");
    }
    out.class(base.flavour());
    for r in base.regime() {
        out.class(r);
    }
    out.class(format!("patience={}", if lm.patience <= 6 { "1..6" } else { ">6" }));
    Ok(out)
}

impl Property for C04 {
    type Case = C04Case;
    fn id(&self) -> &'static str {
        "C04"
    }
    fn regimes(&self) -> &'static str {
        // both generators are used
        static BOTH: std::sync::OnceLock<String> = std::sync::OnceLock::new();
        BOTH.get_or_init(|| format!("{}{}", crate::gen::REGIMES_CATALOGUE, crate::gen::REGIMES_FAMILY)).as_str()
    }
    fn rule(&self) -> String {
        "proptest: problems of two kinds — (a) catalogue models with random observations and tame or wild starting parameters (a coordinate replaced by 0, a negative, 1e-3x or 1e3x its tame value), (b) instances of the certified families started 0..30% off — with all weight classes, S in 1..4, seq/par, f32/f64, and optimizer configurations ftol/xtol/gtol in {default, 0, 1e-8, 1e-3, 1e-1}, patience 1..12 (small values over-sampled), stepbound 1e-2..1e3, scale_diag on/off. Oracle: Ok iff termination in {ResidualsZero, Orthogonal, Converged} (list written out in the harness); for Ok: C01 predicates for (alpha_hat, C_hat), C02 identities, reported objective = ½|residuals|², objective <= objective at the initial guess (read before the fit); number_of_evaluations <= patience·(P+1) and, for hand-written models, the model's own call counters during fit() within that budget. Non-trivial: at least one accepted and one rejected trial step (classified by a probe run), or a non-successful termination".into()
    }
    fn cases(&self, tier: Tier) -> usize {
        match tier {
            Tier::Quick => 100_000,
            Tier::Thorough => 4_000_000,
        }
    }
    fn strategy(&self, _tier: Tier) -> BoxedStrategy<C04Case> {
        let cfg = CaseCfg { max_s: 4, ..CaseCfg::default() };
        let fam = FamCfg { max_s: 4, min_n: 12, max_n: 60, noise_lo: 1e-4, noise_hi: 1e-1, noiseless_16: 4, start_rel: 0.3, allow_f32: true, weights: true, calibrated_weights: false, extra_families: false, wide_weights: false, max_decays: 3, units: true, long_data: true };
        (case_strategy(cfg), family_strategy(fam), lm_strategy(12), any::<u16>(), any::<u16>(), any::<u16>())
            .prop_map(|(mut base, fam, lm, src, wild, wk)| {
                if src % 2 == 0 {
                    base = fam.to_problem_case();
                } else if pick(wild, 4) == 0 {
                    let k = pick(wk, base.alpha.len());
                    base.alpha[k] = match pick(wild.rotate_left(4), 5) {
                        0 => 0.0,
                        1 => -base.alpha[k],
                        2 => base.alpha[k] * 1e-3,
                        3 => base.alpha[k] * 1e3,
                        _ => -1e-2,
                    };
                }
                C04Case { base, lm }
            })
            .boxed()
    }
    fn pool_of(&self, case: &Self::Case) -> Option<usize> {
        case.base.pool_size()
    }
    fn check(&self, case: &C04Case) -> Check {
        if case.base.f32 {
            run::<f32>(case)
        } else {
            run::<f64>(case)
        }
    }
}

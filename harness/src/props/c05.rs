//! C05 — fitting converges to a least-squares minimiser on identifiable problems.
use super::oracles::{effective_eps, weighted_dkc, Lin};
use crate::engine::{Check, Fail, Outcome, Property, Tier};
use crate::gen::{family_strategy, FamCase, FamCfg};
use crate::oracle::linalg::{dot, norm2, Mat};
use crate::Sc;
use levenberg_marquardt::LevenbergMarquardt;
use proptest::strategy::{BoxedStrategy, Strategy};

pub struct C05;

pub struct FitFacts {
    /// false: the instance is outside the identifiability premise (nothing was judged)
    pub in_premise: bool,
    pub evals: usize,
    pub repro: f64,
    pub ssq_ratio: f64,
    pub cosine: f64,
    pub alpha_err: f64,
}

/// thresholds (calibrated on the repaired tree, then frozen; the measured margins are in
/// the evidence under observed_maxima)
pub const REPRO_TOL_F64: f64 = 1e-10;
pub const REPRO_TOL_F32: f64 = 1e-3;
pub const COSINE_TOL: f64 = 4e-4;
pub const SSQ_SLACK: f64 = 1e-9;
/// identifiability premise for noisy instances: predicted relative standard deviation of every
/// nonlinear parameter (oracle, from the generating parameters, sigma and weights only)
pub const PREMISE_REL_SD: f64 = 0.03;

pub fn check_family_fit<T: Sc>(case: &FamCase, solver: &LevenbergMarquardt<T>) -> Result<FitFacts, Fail> {
    let pc = case.to_problem_case();
    let eps = effective_eps::<T>(None);
    let prob = pc.build::<T>().map_err(|e| Fail::new("build", e))?;
    let fo = prob.fit(solver);
    // "identifiable ... with small bounded noise": decided by the oracle from the generating
    // parameters alone. Seen on the unchanged tree (silence campaign, seed 300): three decays
    // (0.73, 2.6, 8.0) with a weak middle component at noise 6e-3 — predicted scatter of tau_2
    // 42 % — where the optimizer legitimately ends at tau_2 = tau_3 (kappa(A) = 4e7) and the
    // cosine is dominated by rounding. Such instances are run (no panic) but not judged.
    if let Some(sd) = case.predicted_alpha_rel_sd() {
        if !sd.iter().all(|v| *v <= PREMISE_REL_SD) {
            return Ok(FitFacts { in_premise: false, evals: fo.report.evals, repro: 0.0, ssq_ratio: 0.0, cosine: 0.0, alpha_err: 0.0 });
        }
    } else if !case.sigma.is_empty() {
        return Ok(FitFacts { in_premise: false, evals: fo.report.evals, repro: 0.0, ssq_ratio: 0.0, cosine: 0.0, alpha_err: 0.0 });
    }
    if !fo.ok {
        return Err(Fail::new("c05.fit_failed", format!("the fit of an identifiable family instance started within {:.1}% of the truth failed: {:?} after {} evaluations", 100.0 * rel_start(case), fo.report.term, fo.report.evals)));
    }
    let p = fo.problem.as_ref();
    let (Some(c), Some(r), Some(bf)) = (fo.coeffs.as_ref(), p.residuals(), fo.best_fit.as_ref()) else {
        return Err(Fail::new("c05.no_result", "successful fit without coefficients / residuals / best fit".to_string()));
    };
    let lin = Lin::new(p, eps).map_err(|e| Fail::new("c05.no_model", e))?;
    let rv: Vec<f64> = r.iter().map(|v| v.f()).collect();
    let n = case.n();
    let s = case.s();
    // observations as the problem saw them (rounded to T)
    let y = pc.ymat::<T>();
    let yf = Mat::from_na(&y);
    // reproduction of noiseless data
    let mut repro = 0.0;
    if case.sigma.is_empty() {
        let d: Vec<f64> = (0..n * s).map(|i| bf.as_slice()[i].f() - yf.d[i]).collect();
        repro = norm2(&d) / yf.fro().max(f64::MIN_POSITIVE);
        let tol = if case.f32 { REPRO_TOL_F32 } else { REPRO_TOL_F64 };
        if !(repro <= tol) {
            return Err(Fail::new("c05.reproduction", format!("noiseless observations are reproduced only to {repro:e} (relative), threshold {tol:e}; alpha_hat = {:?}, truth {:?}", fo.alpha, case.alpha_true)));
        }
    }
    // weighted sum of squares does not exceed that of the generating parameters
    let ssq_fit: f64 = rv.iter().map(|v| v * v).sum();
    let clean = case.clean();
    let w = &lin.w;
    let mut ssq_true = 0.0;
    for col in 0..s {
        for i in 0..n {
            let d = w[i] * (yf.at(i, col) - clean[col][i]);
            ssq_true += d * d;
        }
    }
    let round = (lin.k() * lin.ut * lin.b.fro()).powi(2);
    let ssq_ratio = ssq_fit / (ssq_true + round).max(f64::MIN_POSITIVE);
    if !case.f32 && !(ssq_fit <= ssq_true * (1.0 + SSQ_SLACK) + round) {
        return Err(Fail::new("c05.ssq_above_truth", format!("weighted sum of squares of the fit {ssq_fit:e} exceeds that of the generating parameters {ssq_true:e}")));
    }
    // orthogonality of the residual to the oracle's Kaufman Jacobian at the returned point
    let mut cosine = 0.0f64;
    let cm = Mat::from_na(c);
    if !case.sigma.is_empty() && !case.f32 {
        let rn = norm2(&rv);
        for k in 0..case.spec.p {
            let v = weighted_dkc(p, &lin, &cm, k).map_err(|e| Fail::new("c05.deriv", e))?;
            let jk = lin.svd.project_range(&v, lin.m).sub(&v);
            let jn = jk.fro();
            if jn > 0.0 && rn > 0.0 {
                let cs = dot(&jk.d, &rv).abs() / (jn * rn);
                cosine = cosine.max(cs);
            }
        }
        if !(cosine <= COSINE_TOL) {
            return Err(Fail::new("c05.not_stationary", format!("at the returned point the residual is not orthogonal to the Jacobian: cosine {cosine:e} > {COSINE_TOL:e}")));
        }
    }
    // sanity: the estimate is near the truth
    let alpha_err = fo.alpha.iter().zip(&case.alpha_true).map(|(a, t)| (a.f() - t).abs() / t.abs()).fold(0.0, f64::max);
    let noise_rel = if case.sigma.is_empty() { 0.0 } else { case.sigma.iter().cloned().fold(0.0, f64::max) / clean.iter().flat_map(|c| c.iter()).fold(0.0f64, |m, v| m.max(v.abs())) };
    let _ = noise_rel; // the distance from the truth is reported (observed_maxima), not judged
    Ok(FitFacts { in_premise: true, evals: fo.report.evals, repro, ssq_ratio, cosine, alpha_err })
}

fn rel_start(case: &FamCase) -> f64 {
    case.alpha_start.iter().zip(&case.alpha_true).map(|(a, t)| (a - t).abs() / t.abs()).fold(0.0, f64::max)
}

fn run<T: Sc>(case: &FamCase) -> Check {
    let mut out = Outcome::default();
    let facts = check_family_fit::<T>(case, &LevenbergMarquardt::new())?;
    out.class(format!("family={}", case.family));
    if !facts.in_premise {
        out.class(format!("outside-identifiability-premise:family={}", case.family));
        return Ok(out);
    }
    out.nontrivial = case.alpha_start != case.alpha_true;
    out.class(crate::gen::s_label(case.s()));
    out.class(if case.w.is_some() { "weighted" } else { "unweighted" });
    for r in case.regime() {
        out.class(r);
    }
    out.class(if case.sigma.is_empty() { "noiseless" } else { "noisy" });
    out.class(if case.f32 { "f32" } else { "f64" });
    out.class(if case.hand { "hand" } else { "builder" });
    out.max("evaluations", facts.evals as f64);
    if case.sigma.is_empty() {
        out.max(if case.f32 { "reproduction_error_f32" } else { "reproduction_error_f64" }, facts.repro);
    } else if !case.f32 {
        out.max("cosine", facts.cosine);
        out.max("ssq_ratio_fit_over_truth", facts.ssq_ratio);
    }
    out.max("alpha_relative_error", facts.alpha_err);
    Ok(out)
}

pub fn c05_cfg() -> FamCfg {
    FamCfg { max_s: 4, min_n: 30, max_n: 200, noise_lo: 1e-6, noise_hi: 1e-3, noiseless_16: 6, start_rel: 0.03, allow_f32: true, weights: true, calibrated_weights: false, extra_families: false, wide_weights: false, max_decays: 3, units: true, long_data: true }
}

impl Property for C05 {
    type Case = FamCase;
    fn id(&self) -> &'static str {
        "C05"
    }
    fn regimes(&self) -> &'static str {
        crate::gen::REGIMES_FAMILY
    }
    fn rule(&self) -> String {
        "proptest over the certified families: F1 = 1..3 exponential decays with consecutive tau ratio >= 3 and optional offset (quadratically spaced samples over 3..5 tau_max), F2 = Gaussian peak + decay + offset on [0,10], F3 = single decay + offset; N in 30..200, |c| in [0.5,5] with random signs, start = truth·(1 ± <=3%), noiseless or Gaussian noise of relative RMS 1e-6..1e-3, weights none or positive with ratio <= 10, S in 1..4; noisy instances are judged only inside the identifiability premise (predicted relative standard deviation of every nonlinear parameter <= 3 %, computed by the oracle from truth, sigma and weights; others are counted as outside-identifiability-premise); builder-made and hand-written, f64 (all claims) and f32 (success and reproduction to 1e-3 only), default optimizer settings. Oracle: fit is Ok; noiseless data reproduced to 1e-10 (relative); weighted SSQ(alpha_hat, C_hat) <= SSQ(alpha*, c*)(1+1e-9); with noise the cosine between the residual and every column of the oracle's Kaufman Jacobian at the returned point <= 4e-4. Non-trivial: start != truth; thresholds are calibrated and frozen, measured maxima are reported as observed_maxima".into()
    }
    fn assumptions(&self) -> Vec<String> {
        vec!["thresholds are empirical: calibrated on the repaired tree with the margins reported in observed_maxima".into()]
    }
    fn cases(&self, tier: Tier) -> usize {
        match tier {
            Tier::Quick => 100_000,
            Tier::Thorough => 4_000_000,
        }
    }
    fn strategy(&self, _tier: Tier) -> BoxedStrategy<FamCase> {
        family_strategy(c05_cfg()).boxed()
    }
    fn pool_of(&self, case: &Self::Case) -> Option<usize> {
        case.pool_size()
    }
    fn check(&self, case: &FamCase) -> Check {
        if case.f32 {
            run::<f32>(case)
        } else {
            run::<f64>(case)
        }
    }
}

//! C06 — weights act as row scaling of model and data, applied exactly once.
use super::drive::{drive, lm_strategy, LmCfg};
use super::oracles::{effective_eps, Lin, RankClass, FORWARD_GATE};
use crate::adapt::{build_problem, Build, FitOut, Prob};
use crate::engine::{Check, Fail, Outcome, Property, Tier};
use crate::fl;
use crate::gen::{case_strategy, CaseCfg, ProblemCase};
use crate::models::{builder_model, HandModel, RowScaled};
use crate::oracle::linalg::{norm2, Mat};
use crate::sc::same_bits;
use crate::Sc;
use nalgebra::DMatrix;
use proptest::prelude::*;
use serde::{Deserialize, Serialize};

pub struct C06;

#[derive(Clone, Debug, Serialize, Deserialize)]
pub struct C06Case {
    pub base: ProblemCase,
    pub lm: LmCfg,
    /// replacement values for observations at zero-weight rows
    #[serde(with = "fl::vec")]
    pub repl: Vec<f64>,
    /// which row gets a zero weight in the zero-weight sub-check
    pub zero_row: u16,
}

fn bits_equal<T: Sc>(a: &[T], b: &[T]) -> bool {
    a.len() == b.len() && a.iter().zip(b).all(|(x, y)| same_bits(*x, *y))
}

/// numerically equal element by element (+0 and -0 identified, NaN == NaN)
fn num_equal<T: Sc>(a: &[T], b: &[T]) -> bool {
    a.len() == b.len() && a.iter().zip(b).all(|(x, y)| x.f() == y.f() || (x.f().is_nan() && y.f().is_nan()))
}

fn rel_dev(a: &[f64], b: &[f64]) -> f64 {
    let d: Vec<f64> = a.iter().zip(b).map(|(x, y)| x - y).collect();
    let s = norm2(a).max(norm2(b));
    if s == 0.0 {
        0.0
    } else {
        norm2(&d) / s
    }
}

fn tov<T: Sc>(m: &DMatrix<T>) -> Vec<f64> {
    m.iter().map(|v| v.f()).collect()
}

/// the row-scaled, unweighted twin of `case`
fn build_twin<T: Sc>(case: &ProblemCase, w: &[T]) -> Result<Box<dyn Prob<T>>, String> {
    let x: Vec<T> = case.xs();
    let a: Vec<T> = case.alphas();
    let y = case.ymat::<T>();
    let yw = DMatrix::from_fn(y.nrows(), y.ncols(), |i, j| w[i] * y[(i, j)]);
    let bd = Build { y: yw, w: None, eps: case.eps.map(T::of), mrhs: case.mrhs, par: case.par };
    if case.hand {
        build_problem(RowScaled { inner: HandModel::new(&case.spec, &x, &a), w: w.to_vec() }, &bd)
    } else {
        let m = builder_model(&case.spec, &x, &a, None, case.reverse_derivs).map_err(|e| format!("{e:?}"))?;
        build_problem(RowScaled { inner: m, w: w.to_vec() }, &bd)
    }
}

/// compare the state of P and its twin at the same alpha
fn compare_states<T: Sc>(p: &dyn Prob<T>, q: &dyn Prob<T>, eps: f64, tag: &str, what: &str, skipped: &mut Vec<String>) -> Result<(), Fail> {
    let (pc, qc) = (p.coeffs(), q.coeffs());
    let (pr, qr) = (p.residuals(), q.residuals());
    let (pj, qj) = (p.jacobian(), q.jacobian());
    if pc.is_some() != qc.is_some() || pr.is_some() != qr.is_some() || pj.is_some() != qj.is_some() {
        return Err(Fail::new(
            "c06.presence",
            format!("{tag}: {what}: presence differs (coefficients {}/{}, residuals {}/{}, Jacobian {}/{})", pc.is_some(), qc.is_some(), pr.is_some(), qr.is_some(), pj.is_some(), qj.is_some()),
        ));
    }
    let (Some(pc), Some(qc), Some(pr), Some(qr)) = (pc, qc, pr, qr) else { return Ok(()) };
    let all_bits = bits_equal(pc.as_slice(), qc.as_slice())
        && bits_equal(&pr, &qr)
        && match (&pj, &qj) {
            (Some(a), Some(b)) => bits_equal(a.as_slice(), b.as_slice()),
            _ => true,
        };
    if all_bits {
        return Ok(());
    }
    // not bit-identical: tolerance-based comparison, condition aware
    let Ok(lin) = Lin::new(p, eps) else { return Ok(()) };
    let kappa = if lin.class == RankClass::ClearFull { lin.kappa_kept() } else { f64::INFINITY };
    let tol = lin.kf() * lin.ut * kappa;
    if !(tol <= FORWARD_GATE) {
        skipped.push("c06.compare:not-bitwise-and-ill-conditioned".into());
        return Ok(());
    }
    let dc = rel_dev(&tov(&pc), &tov(&qc));
    let prv: Vec<f64> = pr.iter().map(|v| v.f()).collect();
    let qrv: Vec<f64> = qr.iter().map(|v| v.f()).collect();
    // residual deviation relative to the data
    let dr = {
        let d: Vec<f64> = prv.iter().zip(&qrv).map(|(x, y)| x - y).collect();
        norm2(&d) / lin.b.fro().max(f64::MIN_POSITIVE)
    };
    if dc > tol || dr > tol {
        return Err(Fail::new(
            "c06.twin_state",
            format!("{tag}: {what}: coefficients differ by {dc:e} (relative), residuals by {dr:e} (relative to |W Y|), tolerance {tol:e}"),
        ));
    }
    if let (Some(a), Some(b)) = (pj, qj) {
        let sh = p.shape();
        let scales = super::oracles::jacobian_scales(p, &lin);
        for k in 0..sh.p {
            let ak: Vec<f64> = a.column(k).iter().map(|v| v.f()).collect();
            let bk: Vec<f64> = b.column(k).iter().map(|v| v.f()).collect();
            let d: Vec<f64> = ak.iter().zip(&bk).map(|(x, y)| x - y).collect();
            let scale = scales.as_ref().map(|s| s[k]).unwrap_or(0.0).max(norm2(&ak)).max(norm2(&bk));
            let bound = tol * scale + f64::MIN_POSITIVE;
            if !(norm2(&d) <= bound) {
                return Err(Fail::new("c06.twin_jacobian", format!("{tag}: {what}: Jacobian column {k} differs by {:e}, tolerance {bound:e} (|W D_k C| = {scale:e})", norm2(&d))));
            }
        }
    }
    Ok(())
}

fn compare_fits<T: Sc>(a: &FitOut<T>, b: &FitOut<T>, what: &str) -> Result<(), Fail> {
    let same_report = a.was_successful == b.was_successful && a.report.term == b.report.term && a.report.evals == b.report.evals;
    let same_alpha = bits_equal(&a.alpha, &b.alpha);
    if same_report && same_alpha {
        return Ok(());
    }
    // tolerance path: same verdict and close results
    if a.was_successful != b.was_successful {
        return Err(Fail::new("c06.fit_verdict", format!("{what}: one fit is Ok and the other Err ({:?} vs {:?})", a.report.term, b.report.term)));
    }
    if a.was_successful {
        let av: Vec<f64> = a.alpha.iter().map(|v| v.f()).collect();
        let bv: Vec<f64> = b.alpha.iter().map(|v| v.f()).collect();
        let d = rel_dev(&av, &bv);
        let tol = 1e3 * T::unit().sqrt();
        if d > tol {
            return Err(Fail::new("c06.fit_alpha", format!("{what}: fitted parameters differ by {d:e} (relative): {av:?} vs {bv:?}")));
        }
    }
    Ok(())
}

fn run<T: Sc>(case: &C06Case) -> Check {
    let mut out = Outcome::default();
    let mut skipped = vec![];
    let base = &case.base;
    let eps = effective_eps::<T>(base.eps);
    let w: Vec<T> = base.w.as_ref().expect("C06 cases carry weights").iter().map(|v| T::of(*v)).collect();
    let solver = case.lm.resolved::<T>().solver::<T>();

    // (1) along an LM run on P, the same alpha applied to the twin
    {
        let mut twin = build_twin::<T>(base, &w).map_err(|e| Fail::new("build", e))?;
        let mut visit = |p: &dyn Prob<T>, tag: &str| -> Result<(), Fail> {
            if tag != "construction" {
                twin.set_params(&p.params());
            }
            compare_states(p, twin.as_ref(), eps, tag, "weighted problem vs row-scaled twin", &mut skipped)
        };
        drive::<T>(base, &[], Some(&case.lm), &mut visit)?;
    }
    // (2) independent fits, (3) statistics for a single right-hand side
    {
        let p = base.build::<T>().map_err(|e| Fail::new("build", e))?;
        let q = build_twin::<T>(base, &w).map_err(|e| Fail::new("build", e))?;
        let (fa, fb) = if base.mrhs { (p.fit(&solver), q.fit(&solver)) } else { (p.fit_stats(&solver), q.fit_stats(&solver)) };
        compare_fits(&fa, &fb, "weighted problem vs row-scaled twin")?;
        out.class(format!("fit:{}", fa.report.term.tag()));
        // condition of the statistics' matrix H (gate for the comparison of covariances)
        let mut h_tol = f64::INFINITY;
        let h_gate_ok = match (fa.problem.coeffs(), fa.ok || fa.was_successful) {
            (Some(c), true) => match super::oracles::stats_h(fa.problem.as_ref(), &Mat::from_na(&c), true) {
                Ok(h) if h.all_finite() => {
                    let sv = crate::oracle::linalg::svd(&h);
                    let kappa = sv.smax() / sv.smin().max(f64::MIN_POSITIVE);
                    h_tol = super::oracles::kforward(h.r, h.c) * T::unit() * kappa * kappa;
                    h_tol <= FORWARD_GATE
                }
                _ => false,
            },
            _ => false,
        };
        match (&fa.stats, &fb.stats) {
            _ if !h_gate_ok && !base.mrhs => {
                skipped.push("c06.statistics:kappa(H)^2-gate".into());
            }
            (Some(sa), Some(sb)) => {
                out.class("statistics:compared");
                let (ca, cb) = (sa.cov(), sb.cov());
                let bitwise = same_bits(sa.chi2(), sb.chi2()) && bits_equal(ca.as_slice(), cb.as_slice());
                if !bitwise {
                    let dchi = (sa.chi2().f() - sb.chi2().f()).abs() / sa.chi2().f().abs().max(f64::MIN_POSITIVE);
                    let dcov = rel_dev(&tov(&ca), &tov(&cb));
                    let tol = h_tol;
                    if dchi > 1e3 * T::unit().sqrt() || dcov > tol {
                        return Err(Fail::new("c06.statistics", format!("reduced chi2 differs by {dchi:e}, covariance by {dcov:e} (relative) between the weighted problem and its row-scaled twin")));
                    }
                }
            }
            (None, None) => {}
            (a, b) => {
                if same_bits_vec(&fa.alpha, &fb.alpha) {
                    return Err(Fail::new("c06.statistics_presence", format!("statistics present for one twin only ({} / {})", a.is_some(), b.is_some())));
                }
            }
        }
    }
    // (4) all-ones weights are equivalent to no weights
    {
        let mut ones = base.clone();
        ones.w = Some(vec![1.0; base.n()]);
        let mut none = base.clone();
        none.w = None;
        let p = ones.build::<T>().map_err(|e| Fail::new("build", e))?;
        let q = none.build::<T>().map_err(|e| Fail::new("build", e))?;
        compare_states(p.as_ref(), q.as_ref(), eps, "construction", "unit weights vs no weights", &mut skipped)?;
        let (fa, fb) = (p.fit(&solver), q.fit(&solver));
        compare_fits(&fa, &fb, "unit weights vs no weights")?;
    }
    // (5) a zero weight removes the influence of the sample
    let mut zero_checked = false;
    if base.n() > base.spec.m() + 1 {
        let i0 = crate::engine::pick(case.zero_row, base.n());
        let mut wz = base.w.clone().unwrap();
        wz[i0] = 0.0;
        let mut a = base.clone();
        a.w = Some(wz.clone());
        // (5a) replacing y at the zero-weight row changes nothing
        let mut b = a.clone();
        for (c, col) in b.y.iter_mut().enumerate() {
            col[i0] = case.repl[c % case.repl.len()];
        }
        let pa = a.build::<T>().map_err(|e| Fail::new("build", e))?;
        let pb = b.build::<T>().map_err(|e| Fail::new("build", e))?;
        let (ca, cb) = (pa.coeffs(), pb.coeffs());
        let (ra, rb) = (pa.residuals(), pb.residuals());
        let (ja, jb) = (pa.jacobian(), pb.jacobian());
        let same = match (&ca, &cb, &ra, &rb) {
            (Some(ca), Some(cb), Some(ra), Some(rb)) => {
                num_equal(ca.as_slice(), cb.as_slice())
                    && num_equal(ra, rb)
                    && match (&ja, &jb) {
                        (Some(x), Some(y)) => num_equal(x.as_slice(), y.as_slice()),
                        (None, None) => true,
                        _ => false,
                    }
            }
            (None, None, None, None) => true,
            _ => false,
        };
        if !same {
            return Err(Fail::new("c06.zero_weight_value", format!("row {i0} has weight zero, but replacing its observation changes coefficients, residuals or Jacobian")));
        }
        // (5b) deleting the row gives the same coefficients and the same remaining residuals
        let mut d = a.clone();
        d.x.remove(i0);
        for col in d.y.iter_mut() {
            col.remove(i0);
        }
        d.w.as_mut().unwrap().remove(i0);
        let pd = d.build::<T>().map_err(|e| Fail::new("build", e))?;
        if let (Some(ca), Some(cd), Ok(la), Ok(ld)) = (pa.coeffs(), pd.coeffs(), Lin::new(pa.as_ref(), eps), Lin::new(pd.as_ref(), eps)) {
            if la.class == RankClass::ClearFull && ld.class == RankClass::ClearFull && la.kf() * la.ut * la.kappa_kept() <= FORWARD_GATE {
                let kept = la.sure_kept;
                let co = la.svd.solve_rank(&la.b, kept);
                let (ca, cd) = (Mat::from_na(&ca), Mat::from_na(&cd));
                let sk = la.svd.s[kept - 1];
                for col in 0..la.s {
                    let dev = norm2(&ca.col(col).iter().zip(cd.col(col)).map(|(x, y)| x - y).collect::<Vec<_>>());
                    // calibration: how far the reference pipeline is from the oracle on either matrix
                    let refdev = |l: &Lin| l.c_ref.as_ref().map(|c| norm2(&c.col(col).iter().zip(co.col(col)).map(|(x, y)| x - y).collect::<Vec<_>>())).unwrap_or(0.0);
                    let bound = (la.kf() * la.ut * la.kappa_kept() * (norm2(co.col(col)) + norm2(la.b.col(col)) / sk)).max(4.0 * (refdev(&la) + refdev(&ld)));
                    if !(dev <= bound) {
                        return Err(Fail::new("c06.zero_weight_delete", format!("column {col}: deleting the zero-weight row {i0} changes the coefficients by {dev:e} > {bound:e}")));
                    }
                }
                zero_checked = true;
            } else {
                skipped.push("c06.zero_weight_delete:rank-or-kappa-gate".into());
            }
        }
    }
    let wabs: Vec<f64> = base.w.as_ref().unwrap().iter().map(|v| v.abs()).filter(|v| *v > 0.0).collect();
    let ratio = wabs.iter().cloned().fold(0.0, f64::max) / wabs.iter().cloned().fold(f64::INFINITY, f64::min);
    out.nontrivial = ratio >= 2.0;
    out.class(base.weight_class());
    if ratio > 1e4 {
        out.class("w:wide");
    }
    if zero_checked {
        out.class("zero-weight-deletion:checked");
    }
    out.class(crate::gen::s_label(base.s()));
    out.class(base.flavour());
    for r in base.regime() {
        out.class(r);
    }
    skipped.sort();
    skipped.dedup();
    for s in skipped {
        out.skip(s);
    }
    Ok(out)
}

fn same_bits_vec<T: Sc>(a: &[T], b: &[T]) -> bool {
    bits_equal(a, b)
}

impl Property for C06 {
    type Case = C06Case;
    fn id(&self) -> &'static str {
        "C06"
    }
    fn regimes(&self) -> &'static str {
        crate::gen::REGIMES_CATALOGUE
    }
    fn rule(&self) -> String {
        "proptest: weighted problem P(w) and its twin P' = (row-scaled model, W∘Y, no weights); weight classes positive (1e-3..1e3 and 0.5..2), with zeros, with negatives; S in 1..4. Differential oracle: (1) at every alpha of an LM run on P the same alpha is applied to P' and coefficients, residuals and Jacobian agree (bitwise, else condition-aware tolerance), (2) independent fits agree in verdict and result, (3) single rhs: reduced chi2 and covariance agree, (4) all-ones weights behave like no weights, (5) a zero weight: replacing that observation changes nothing, deleting the row gives the same coefficients. Non-trivial: max|w|/min|w| >= 2".into()
    }
    fn assumptions(&self) -> Vec<String> {
        vec!["the twin is built through the same public builders; its row scaling is harness code (one multiplication per entry)".into()]
    }
    fn cases(&self, tier: Tier) -> usize {
        match tier {
            Tier::Quick => 40_000,
            Tier::Thorough => 2_500_000,
        }
    }
    fn strategy(&self, _tier: Tier) -> BoxedStrategy<C06Case> {
        let cfg = CaseCfg { max_s: 4, ..CaseCfg::default() };
        (case_strategy(cfg), lm_strategy(10), proptest::collection::vec(-1e3f64..1e3, 4), any::<u16>(), proptest::collection::vec(any::<u16>(), 48), any::<u16>())
            .prop_map(|(mut base, lm, repl, zero_row, us, wclass)| {
                // weights are mandatory here
                if base.w.is_none() || base.w.as_ref().unwrap().iter().all(|v| *v == 1.0) {
                    let n = base.n();
                    base.w = crate::gen::weights_from_raw(wclass | 0x6000, n, &us).or_else(|| Some((0..n).map(|i| 0.25 + (us[i % 48] as f64 / 65536.0) * 4.0).collect()));
                }
                C06Case { base, lm, repl, zero_row }
            })
            .boxed()
    }
    fn pool_of(&self, case: &Self::Case) -> Option<usize> {
        case.base.pool_size()
    }
    fn check(&self, case: &C06Case) -> Check {
        if case.base.f32 {
            run::<f32>(case)
        } else {
            run::<f64>(case)
        }
    }
}

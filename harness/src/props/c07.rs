//! C07 — multiple right-hand sides: shared α, independent per-column coefficients.
use super::drive::{drive, lm_strategy, LmCfg};
use super::oracles::{effective_eps, Lin, RankClass, FORWARD_GATE};
use crate::adapt::Prob;
use crate::engine::{pick, Check, Fail, Outcome, Property, Tier};
use crate::gen::{case_strategy, CaseCfg, ProblemCase};
use crate::oracle::linalg::norm2;
use crate::sc::same_bits;
use crate::Sc;
use proptest::prelude::*;
use serde::{Deserialize, Serialize};

pub struct C07;

#[derive(Clone, Debug, Serialize, Deserialize)]
pub struct C07Case {
    pub base: ProblemCase,
    pub lm: LmCfg,
    /// permutation of the columns (as sort keys)
    pub perm_keys: Vec<u16>,
    #[serde(with = "crate::fl::vecvec")]
    pub updates: Vec<Vec<f64>>,
    /// an instance of the certified families (S >= 2) for the fitted-alpha invariance under
    /// column permutation
    pub fam: crate::gen::FamCase,
}

/// relative tolerance for "alpha unchanged up to the accuracy of the optimizer" (f64; calibrated,
/// the measured maximum is reported as observed_maxima.permuted_fit_alpha_deviation)
pub const PERM_FIT_TOL: f64 = 1e-6;

fn permuted_fit<T: Sc>(case: &C07Case, out: &mut Outcome) -> Result<(), Fail> {
    let fam = &case.fam;
    if fam.s() < 2 || fam.f32 {
        return Ok(());
    }
    // "up to the accuracy of the optimizer" presupposes a well-determined minimiser: the same
    // identifiability premise as C05 (oracle-side, from the generating parameters only)
    if !fam.sigma.is_empty() && !fam.predicted_alpha_rel_sd().is_some_and(|sd| sd.iter().all(|v| *v <= super::c05::PREMISE_REL_SD)) {
        out.class("permuted-fit:outside-identifiability-premise");
        return Ok(());
    }
    let perm = perm_of(&case.perm_keys, fam.s());
    let mut fp = fam.clone();
    fp.c_true = perm.iter().map(|&i| fam.c_true[i].clone()).collect();
    // same noise realisation per column: permute the observations themselves
    let obs = fam.observations();
    let mut pa = fam.to_problem_case();
    let mut pb = pa.clone();
    pa.y = obs.clone();
    pb.y = perm.iter().map(|&i| obs[i].clone()).collect();
    let solver = levenberg_marquardt::LevenbergMarquardt::<T>::new();
    let fa = pa.build::<T>().map_err(|e| Fail::new("build", e))?.fit(&solver);
    let fb = pb.build::<T>().map_err(|e| Fail::new("build", e))?.fit(&solver);
    if fa.ok != fb.ok {
        return Err(Fail::new("c07.permuted_fit_verdict", format!("fit verdict changes under a column permutation: {:?} vs {:?}", fa.report.term, fb.report.term)));
    }
    if fa.ok {
        let dev = fa.alpha.iter().zip(&fb.alpha).map(|(a, b)| (a.f() - b.f()).abs() / a.f().abs()).fold(0.0, f64::max);
        out.max("permuted_fit_alpha_deviation", dev);
        out.class("permuted-fit:compared");
        if dev > PERM_FIT_TOL {
            return Err(Fail::new("c07.permuted_fit_alpha", format!("fitted alpha changes by {dev:e} (relative) under the column permutation {perm:?}: {:?} vs {:?}", fa.alpha, fb.alpha)));
        }
        // coefficients permute accordingly
        if let (Some(ca), Some(cb)) = (&fa.coeffs, &fb.coeffs) {
            for (j, &src) in perm.iter().enumerate() {
                let a: Vec<f64> = ca.column(src).iter().map(|v| v.f()).collect();
                let b: Vec<f64> = cb.column(j).iter().map(|v| v.f()).collect();
                let d = dev2(&a, &b);
                out.max("permuted_fit_coefficient_deviation", d);
                if d > 1e-4 {
                    return Err(Fail::new("c07.permuted_fit_coefficients", format!("coefficients of column {src} change by {d:e} (relative) when it becomes column {j}")));
                }
            }
        }
    }
    Ok(())
}

fn dev2(a: &[f64], b: &[f64]) -> f64 {
    let d: Vec<f64> = a.iter().zip(b).map(|(x, y)| x - y).collect();
    norm2(&d) / norm2(a).max(norm2(b)).max(f64::MIN_POSITIVE)
}

fn perm_of(keys: &[u16], s: usize) -> Vec<usize> {
    let mut idx: Vec<usize> = (0..s).collect();
    idx.sort_by_key(|&i| (keys[i % keys.len()], i));
    idx
}

/// deviation of two vectors relative to `scale`
fn dev(a: &[f64], b: &[f64], scale: f64) -> f64 {
    let d: Vec<f64> = a.iter().zip(b).map(|(x, y)| x - y).collect();
    norm2(&d) / scale.max(f64::MIN_POSITIVE)
}

/// column `s` of the multi-rhs state of `p` against the state of the single-column problem `q`
fn compare_column<T: Sc>(p: &dyn Prob<T>, q: &dyn Prob<T>, s: usize, eps: f64, tag: &str, what: &str, skipped: &mut Vec<String>) -> Result<(), Fail> {
    let sh = p.shape();
    let (pc, qc) = (p.coeffs(), q.coeffs());
    let (pr, qr) = (p.residuals(), q.residuals());
    let (pj, qj) = (p.jacobian(), q.jacobian());
    if pc.is_some() != qc.is_some() || pr.is_some() != qr.is_some() || pj.is_some() != qj.is_some() {
        return Err(Fail::new("c07.presence", format!("{tag}: {what} {s}: presence of coefficients/residuals/Jacobian differs")));
    }
    let (Some(pc), Some(qc), Some(pr), Some(qr)) = (pc, qc, pr, qr) else { return Ok(()) };
    if qc.ncols() != 1 || qc.nrows() != sh.m || qr.len() != sh.n {
        return Err(Fail::new("c07.shape", format!("{tag}: single-column problem has unexpected shapes")));
    }
    let pcs: Vec<T> = pc.column(s).iter().copied().collect();
    let qcs: Vec<T> = qc.column(0).iter().copied().collect();
    let prs: Vec<T> = pr[s * sh.n..(s + 1) * sh.n].to_vec();
    let mut bitwise = pcs.iter().zip(&qcs).all(|(a, b)| same_bits(*a, *b)) && prs.iter().zip(&qr).all(|(a, b)| same_bits(*a, *b));
    if let (Some(pj), Some(qj)) = (&pj, &qj) {
        for k in 0..sh.p {
            for i in 0..sh.n {
                bitwise &= same_bits(pj[(i + s * sh.n, k)], qj[(i, k)]);
            }
        }
    }
    if bitwise {
        return Ok(());
    }
    let Ok(lin) = Lin::new(q, eps) else { return Ok(()) };
    let kappa = if lin.class == RankClass::ClearFull { lin.kappa_kept() } else { f64::INFINITY };
    let tol = lin.kf() * lin.ut * kappa;
    let f = |v: &[T]| v.iter().map(|x| x.f()).collect::<Vec<f64>>();
    if !(tol <= FORWARD_GATE) {
        // Too ill-conditioned for a forward comparison — but not for the rank decision: a solution
        // that keeps a tiny singular value is larger by the ratio of the condition numbers than one
        // that truncates it, and their residuals differ by the data's component along the dropped
        // direction. Both problems decompose the same matrix with the same threshold, so they must
        // decide alike (a threshold that depends on the number of right-hand sides does not).
        let (a, b) = (f(&pcs), f(&qcs));
        let (na, nb) = (norm2(&a), norm2(&b));
        let dr = dev(&f(&prs), &f(&qr), lin.b.fro());
        let floor = lin.tiny * 1e6;
        if na.is_finite() && nb.is_finite() && (na > 1e3 * nb.max(floor) || nb > 1e3 * na.max(floor)) && dr > 1e-6 {
            return Err(Fail::new(
                "c07.rank_decision",
                format!("{tag}: {what} {s}: the multi-rhs problem and the single-column problem decide differently which singular values count as zero: |c| = {na:e} vs {nb:e}, residual blocks differ by {dr:e} (relative); sigma = {:?}, threshold {eps:e}", lin.svd.s),
            ));
        }
        skipped.push("c07.compare:not-bitwise-and-ill-conditioned(rank decision checked)".into());
        return Ok(());
    }
    let (a, b) = (f(&pcs), f(&qcs));
    let dc = dev(&a, &b, norm2(&a).max(norm2(&b)));
    let dr = dev(&f(&prs), &f(&qr), lin.b.fro());
    if dc > tol || dr > tol {
        return Err(Fail::new("c07.column_state", format!("{tag}: {what} {s}: coefficients differ by {dc:e}, residual block by {dr:e} (relative), tolerance {tol:e}")));
    }
    if let (Some(pj), Some(qj)) = (&pj, &qj) {
        // rounding of a Jacobian block is relative to |W D_k c| (taken from the single-column problem)
        let scales = super::oracles::jacobian_scales(q, &lin);
        for k in 0..sh.p {
            let a: Vec<f64> = (0..sh.n).map(|i| pj[(i + s * sh.n, k)].f()).collect();
            let b: Vec<f64> = (0..sh.n).map(|i| qj[(i, k)].f()).collect();
            let scale = scales.as_ref().map(|v| v[k]).unwrap_or(0.0).max(norm2(&a)).max(norm2(&b));
            if scale == 0.0 {
                continue;
            }
            let d = dev(&a, &b, scale);
            if d > tol {
                return Err(Fail::new("c07.column_jacobian", format!("{tag}: {what} {s}: Jacobian column {k} block differs by {d:e} (relative to |W D_k c|), tolerance {tol:e}")));
            }
        }
    }
    Ok(())
}

fn run<T: Sc>(case: &C07Case) -> Check {
    let mut out = Outcome::default();
    let mut skipped = vec![];
    let base = &case.base;
    let eps = effective_eps::<T>(base.eps);
    let s = base.s();
    // single-column twins (sequential single-rhs constructors)
    let mut singles: Vec<Box<dyn Prob<T>>> = vec![];
    for c in 0..s {
        let mut sc = base.clone();
        sc.y = vec![base.y[c].clone()];
        sc.mrhs = false;
        singles.push(sc.build::<T>().map_err(|e| Fail::new("build", e))?);
    }
    // permuted problem
    let perm = perm_of(&case.perm_keys, s);
    let mut pc = base.clone();
    pc.y = perm.iter().map(|&i| base.y[i].clone()).collect();
    let mut permuted = pc.build::<T>().map_err(|e| Fail::new("build", e))?;
    let identity = perm.iter().enumerate().all(|(i, &j)| i == j);
    {
        let mut visit = |p: &dyn Prob<T>, tag: &str| -> Result<(), Fail> {
            let a = p.params();
            for (c, q) in singles.iter_mut().enumerate() {
                if tag != "construction" {
                    q.set_params(&a);
                }
                compare_column(p, q.as_ref(), c, eps, tag, "column", &mut skipped)?;
            }
            // permutation: column j of the permuted problem is column perm[j] of the original,
            // i.e. equals the single-column problem perm[j]
            if tag != "construction" {
                permuted.set_params(&a);
            }
            for (j, &src) in perm.iter().enumerate() {
                compare_column(permuted.as_ref(), singles[src].as_ref(), j, eps, tag, "permuted column", &mut skipped)?;
            }
            Ok(())
        };
        drive::<T>(base, &case.updates, Some(&case.lm), &mut visit)?;
    }
    permuted_fit::<f64>(case, &mut out)?;
    let distinct_cols = (0..s).any(|i| (0..i).any(|j| base.y[i] != base.y[j]));
    out.nontrivial = s >= 2 && distinct_cols;
    if !identity {
        out.class("permutation:non-identity");
    }
    if (0..s).any(|i| (0..i).any(|j| base.y[i] == base.y[j])) {
        out.class("duplicated-column");
    }
    out.class(crate::gen::s_label(s));
    out.class(base.weight_class());
    out.class(base.flavour());
    for r in base.regime() {
        out.class(r);
    }
    skipped.sort();
    skipped.dedup();
    for s in skipped {
        out.skip(s);
    }
    Ok(out)
}

impl Property for C07 {
    type Case = C07Case;
    fn id(&self) -> &'static str {
        "C07"
    }
    fn regimes(&self) -> &'static str {
        // both generators are used
        static BOTH: std::sync::OnceLock<String> = std::sync::OnceLock::new();
        BOTH.get_or_init(|| format!("{}{}", crate::gen::REGIMES_CATALOGUE, crate::gen::REGIMES_FAMILY)).as_str()
    }
    fn rule(&self) -> String {
        "proptest: multi-rhs problems with S in 1..6 columns (duplicated and linearly dependent columns generated), all weight classes, seq/par, builder/hand, f32/f64; S single-column problems built with the single-rhs constructor on the same model spec; a column permutation. Differential oracle at construction, after caller updates and at every alpha of an LM run on the multi-rhs problem: column s of C, block s of r and block s of every Jacobian column equal the single-column problem's values (bitwise, else condition-aware tolerance); a one-column multi-rhs problem equals the single-rhs problem; the permuted problem's column j equals the single-column problem perm[j]. Fitted-alpha invariance under permutation: an instance of the certified families (C05's generator, S >= 2, f64) is fitted before and after permuting its observation columns; alpha_hat must agree to 1e-6 (relative) and the coefficient columns must permute. Columns too ill-conditioned for a forward comparison are still checked for the rank decision (|c| differing by > 1e3 together with residual blocks differing by > 1e-6 means that the two problems truncate different singular values); 1/32 of the small problems get 40, 120 or 300 right-hand sides and a near collision with sigma_min within four decades above the rounding level, 1/8 get S = N+1..N+6. Non-trivial: S >= 2 and not all columns equal".into()
    }
    fn cases(&self, tier: Tier) -> usize {
        match tier {
            Tier::Quick => 20_000,
            Tier::Thorough => 1_200_000,
        }
    }
    fn strategy(&self, _tier: Tier) -> BoxedStrategy<C07Case> {
        let cfg = CaseCfg { max_s: 6, ..CaseCfg::default() };
        (
            case_strategy(cfg),
            lm_strategy(10),
            proptest::collection::vec(any::<u16>(), 6),
            proptest::collection::vec(proptest::collection::vec(any::<u16>(), 8), 0..=2),
            any::<u16>(),
            -2.0f64..2.0,
            -2.0f64..2.0,
            crate::gen::family_strategy(crate::gen::FamCfg { max_s: 5, min_n: 30, max_n: 120, noise_lo: 1e-6, noise_hi: 1e-3, noiseless_16: 4, start_rel: 0.03, allow_f32: false, weights: true, calibrated_weights: false, extra_families: false, wide_weights: false, max_decays: 3, units: true, long_data: true }),
        )
            .prop_map(|(mut base, lm, perm_keys, raws, dupsel, fa, fb, fam)| {
                base.mrhs = true;
                let s = base.s();
                // duplicated / linearly dependent columns
                if s >= 2 {
                    match dupsel % 8 {
                        0 => base.y[s - 1] = base.y[0].clone(),
                        1 => {
                            let c: Vec<f64> = base.y[0].iter().map(|v| fa * v).collect();
                            base.y[s - 1] = c;
                        }
                        2 if s >= 3 => {
                            let c: Vec<f64> = base.y[0].iter().zip(&base.y[1]).map(|(u, v)| fa * u + fb * v).collect();
                            base.y[s - 1] = c;
                        }
                        _ => {}
                    }
                }
                // 1/8 of the small problems: more right-hand sides than samples (S in N+1..N+6, columns
                // cycled and shifted; the check costs S single-column problems per visited alpha)
                if (dupsel >> 3) & 7 == 7 && base.n() <= 20 {
                    let n = base.n();
                    let s_new = n + 1 + pick(dupsel.rotate_left(9), 6);
                    let s_old = base.y.len();
                    base.y = (0..s_new).map(|c| base.y[c % s_old].iter().map(|v| v + 0.017 * (c / s_old) as f64).collect()).collect();
                }
                // 1/32 of the small problems: very many right-hand sides (40, 120 or 300) on few samples
                // and, where two parameters play the same role, a near collision whose smallest
                // singular value lies within four decades above the rounding level sigma_max·u_T — the
                // zone of numerical-rank tolerances, which may (wrongly) depend on the shape
                if (dupsel >> 6) & 31 == 31 && base.n() <= 16 {
                    let s_new = [40usize, 120, 300][pick(dupsel.rotate_left(3), 3)];
                    let s_old = base.y.len();
                    base.y = (0..s_new).map(|c| base.y[c % s_old].iter().map(|v| v + 0.017 * (c / s_old) as f64).collect()).collect();
                    let roles = base.spec.roles();
                    let ut = if base.f32 { f32::EPSILON as f64 } else { f64::EPSILON };
                    'outer: for i in 0..roles.len() {
                        for j in (i + 1)..roles.len() {
                            if roles[i] == roles[j] {
                                let e = ut * 10f64.powf(4.0 * (perm_keys[0] as f64 / 65536.0));
                                base.alpha[j] = base.alpha[i] * (1.0 + e);
                                break 'outer;
                            }
                        }
                    }
                }
                let updates = crate::gen::alpha_list(&base.spec, &raws);
                C07Case { base, lm, perm_keys, updates, fam }
            })
            .boxed()
    }
    fn pool_of(&self, case: &Self::Case) -> Option<usize> {
        case.base.pool_size()
    }
    fn check(&self, case: &C07Case) -> Check {
        if case.base.f32 {
            run::<f32>(case)
        } else {
            run::<f64>(case)
        }
    }
}

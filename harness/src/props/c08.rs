//! C08 — construction and fitting always terminate without panicking.
use super::drive::{lm_strategy, LmCfg};
use crate::adapt::Prob;
use crate::engine::worker::{Worker, WorkerResult};
use crate::engine::{catch, pick, run_checked_profile, Check, Fail, Outcome, Property, Tier};
use crate::fl;
use crate::gen::{case_strategy, CaseCfg, ProblemCase};
use crate::Sc;
use proptest::prelude::*;
use serde::{Deserialize, Serialize};
use serde_json::{json, Value};
use std::cell::RefCell;
use std::collections::BTreeMap;

pub struct C08;

#[derive(Clone, Debug, Serialize, Deserialize)]
pub struct C08Case {
    pub base: ProblemCase,
    #[serde(with = "fl::vecvec")]
    pub updates: Vec<Vec<f64>>,
    pub lm: LmCfg,
    pub with_stats: bool,
}

/// CPU-time budget per case (the median case costs well under a millisecond)
pub const CPU_BUDGET: f64 = 10.0;
pub const CPU_BUDGET_CONFIRM: f64 = 30.0;

fn special(sel: u16, u: u16) -> f64 {
    let x = u as f64 / 65536.0;
    match pick(sel, 12) {
        0 => f64::NAN,
        1 => f64::INFINITY,
        2 => f64::NEG_INFINITY,
        3 => 0.0,
        4 => -0.0,
        5 => f64::MAX,
        6 => f64::MIN_POSITIVE,
        7 => 4.9e-324 * (1.0 + (u % 1000) as f64),
        8 => f64::from_bits(((sel as u64) << 48) | ((u as u64) << 32) | 0x9e37_79b9),
        9 => -10f64.powf(-20.0 + 40.0 * x),
        10 => f32::MAX as f64 * (0.5 + x),
        _ => 10f64.powf(-20.0 + 40.0 * x),
    }
}

/// does W∘Phi, computed like the code does it (one multiplication in T), contain non-finite entries?
fn phi_w_state<T: Sc>(p: &dyn Prob<T>) -> Option<bool> {
    let phi = p.phi().ok()?;
    let w = p.weights_vec();
    let mut finite = true;
    for j in 0..phi.ncols() {
        for i in 0..phi.nrows() {
            let v = match &w {
                Some(w) => w[i] * phi[(i, j)],
                None => phi[(i, j)],
            };
            finite &= v.f().is_finite();
        }
    }
    Some(finite)
}

pub fn exec<T: Sc>(case: &C08Case) -> Check {
    let mut out = Outcome::default();
    let base = &case.base;
    let mut prob = match base.build::<T>() {
        Ok(p) => p,
        Err(e) => {
            // an error value is a legitimate answer to degenerate input
            out.class(format!("build:{}", e.split(|c: char| !c.is_alphanumeric()).next().unwrap_or("err")));
            out.nontrivial = true;
            return Ok(out);
        }
    };
    let mut saw_nonfinite = false;
    let mut check_state = |p: &dyn Prob<T>, step: &str, saw: &mut bool| -> Result<bool, Fail> {
        match phi_w_state(p) {
            Some(false) => {
                *saw = true;
                if p.residuals().is_some() || p.coeffs().is_some() {
                    return Err(Fail::new("c08.nonfinite_state_present", format!("{step}: the weighted basis matrix contains non-finite values, but residuals/coefficients are reported")));
                }
                Ok(false)
            }
            Some(true) => Ok(true),
            None => Ok(false),
        }
    };
    let mut finite_now = check_state(prob.as_ref(), "construction", &mut saw_nonfinite)?;
    for (i, u) in case.updates.iter().enumerate() {
        let a: Vec<T> = u.iter().map(|v| T::of(*v)).collect();
        prob.set_params(&a);
        finite_now = check_state(prob.as_ref(), &format!("update {i}"), &mut saw_nonfinite)?;
        let _ = prob.jacobian();
    }
    let absent_at_start = prob.residuals().is_none();
    let solver = case.lm.resolved::<T>().solver::<T>();
    let fo = if base.mrhs || !case.with_stats { prob.fit(&solver) } else { prob.fit_stats(&solver) };
    if (absent_at_start || !finite_now) && fo.ok {
        return Err(Fail::new("c08.fit_ok_from_unusable_start", format!("the problem had no usable state at the start (residuals absent = {absent_at_start}, W∘Phi finite = {finite_now}), but the fit returned Ok ({:?})", fo.report.term)));
    }
    if fo.ok {
        let p = fo.problem.as_ref();
        let fin = phi_w_state(p) == Some(true);
        let res_fin = p.residuals().map(|r| r.iter().all(|v| v.f().is_finite())).unwrap_or(false);
        if !fin || !res_fin {
            return Err(Fail::new("c08.ok_with_nonfinite_state", format!("fit returned Ok ({:?}) but the final state is not finite (W∘Phi finite = {fin}, residuals finite = {res_fin})", fo.report.term)));
        }
    }
    if let Some(st) = fo.stats.as_ref() {
        let _ = st.band(T::of(0.9));
        let _ = st.corr();
        let _ = (st.cov(), st.chi2(), st.rse(), st.wres(), st.lin_var(), st.nonlin_var());
        out.class("statistics-computed");
    }
    let special_inputs = base.x.iter().chain(base.alpha.iter()).chain(base.y.iter().flatten()).chain(base.w.iter().flatten()).any(|v| !v.is_finite() || (*v != 0.0 && (v.abs() > 1e15 || v.abs() < 1e-15)));
    out.nontrivial = saw_nonfinite || special_inputs || !fo.ok;
    out.class(format!("term:{}", fo.report.term.tag()));
    if saw_nonfinite {
        out.class("nonfinite-basis-matrix-visited");
    }
    if special_inputs {
        out.class("special-values-in-input");
    }
    if base.n() < base.spec.m() {
        out.class("N<M");
    }
    out.class(base.flavour());
    for r in base.regime() {
        out.class(r);
    }
    out.class(format!("profile:{}", if cfg!(debug_assertions) { "overflow-checked" } else { "release" }));
    Ok(out)
}

pub fn exec_dyn(case: &C08Case) -> Check {
    if case.base.f32 {
        exec::<f32>(case)
    } else {
        exec::<f64>(case)
    }
}

/// child side
pub fn worker_execute(line: &str) -> String {
    let case: C08Case = match serde_json::from_str(line) {
        Ok(c) => c,
        Err(e) => return json!({"status": "error", "msg": format!("cannot decode case: {e}")}).to_string(),
    };
    match catch(|| exec_dyn(&case)) {
        Ok(Ok(o)) => json!({"status": "ok", "nontrivial": o.nontrivial, "classes": o.classes}).to_string(),
        Ok(Err(f)) => json!({"status": "fail", "sub": f.sub, "msg": f.msg}).to_string(),
        Err(text) => json!({"status": "fail", "sub": "panic", "msg": text}).to_string(),
    }
}

thread_local! {
    static WORKER: RefCell<Option<Worker>> = const { RefCell::new(None) };
}

fn with_worker<R>(f: impl FnOnce(&mut Worker) -> R) -> Result<R, Fail> {
    WORKER.with(|w| {
        let mut w = w.borrow_mut();
        if w.is_none() {
            *w = Some(Worker::spawn().map_err(|e| Fail::new("abort", format!("cannot spawn the worker process: {e}")))?);
        }
        Ok(f(w.as_mut().unwrap()))
    })
}

fn reset_worker() {
    WORKER.with(|w| *w.borrow_mut() = None);
}

/// set once a failure has been reported in this process: the re-executions proptest makes
/// while shrinking get a shorter budget and no confirmation run
static SHRINKING: std::sync::atomic::AtomicBool = std::sync::atomic::AtomicBool::new(false);
pub const CPU_BUDGET_SHRINK: f64 = 2.0;

fn watched(case: &C08Case) -> Check {
    let r = watched_inner(case);
    if r.is_err() {
        SHRINKING.store(true, std::sync::atomic::Ordering::SeqCst);
    }
    r
}

fn watched_inner(case: &C08Case) -> Check {
    let req = serde_json::to_string(case).map_err(|e| Fail::new("abort", e.to_string()))?;
    if SHRINKING.load(std::sync::atomic::Ordering::SeqCst) {
        let res = with_worker(|w| w.run(&req, CPU_BUDGET_SHRINK))?;
        return match res {
            WorkerResult::Done(v) => decode(v),
            WorkerResult::Hang(used) => {
                reset_worker();
                Err(Fail::new("c08.hang", format!("the case did not return within {CPU_BUDGET_SHRINK} s of CPU time ({used:.1} s used; shrinking budget)")))
            }
            WorkerResult::Died(s) => {
                reset_worker();
                Err(Fail::new("c08.died", format!("worker process died while executing the case: {s}")))
            }
        };
    }
    let res = with_worker(|w| w.run(&req, CPU_BUDGET))?;
    let v = match res {
        WorkerResult::Done(v) => v,
        WorkerResult::Hang(used) => {
            reset_worker();
            // confirmation run in a fresh worker with a larger budget
            let res2 = with_worker(|w| w.run(&req, CPU_BUDGET_CONFIRM))?;
            match res2 {
                WorkerResult::Done(v) => v,
                WorkerResult::Hang(used2) => {
                    reset_worker();
                    return Err(Fail::new("c08.hang", format!("the case did not return within {CPU_BUDGET} s of CPU time ({used:.1} s used) and again not within {CPU_BUDGET_CONFIRM} s ({used2:.1} s) in a fresh process")));
                }
                WorkerResult::Died(s) => {
                    reset_worker();
                    return Err(Fail::new("c08.died", format!("worker process died while executing the case: {s}")));
                }
            }
        }
        WorkerResult::Died(s) => {
            reset_worker();
            return Err(Fail::new("c08.died", format!("worker process died while executing the case (abort, stack overflow or similar): {s}")));
        }
    };
    decode(v)
}

fn decode(v: Value) -> Check {
    match v["status"].as_str() {
        Some("ok") => {
            let mut o = Outcome { nontrivial: v["nontrivial"].as_bool().unwrap_or(false), ..Default::default() };
            if let Some(cs) = v["classes"].as_array() {
                for c in cs {
                    if let Some(s) = c.as_str() {
                        o.class(s);
                    }
                }
            }
            Ok(o)
        }
        Some("fail") => Err(Fail::new(v["sub"].as_str().unwrap_or("?"), v["msg"].as_str().unwrap_or("?"))),
        _ => Err(Fail::new("abort", format!("worker protocol error: {v}"))),
    }
}

fn wild_case() -> impl Strategy<Value = C08Case> {
    let cfg = CaseCfg { max_s: 3, max_n: 24, ..CaseCfg::default() };
    (
        case_strategy(cfg),
        proptest::collection::vec(proptest::collection::vec(any::<u16>(), 8), 0..=2),
        lm_strategy(30),
        any::<u16>(),
        proptest::collection::vec((any::<u16>(), any::<u16>(), any::<u16>()), 64),
        any::<u16>(),
    )
        .prop_map(|(base, raws, lm, regime, sp, shape)| wild_from_raw(base, &raws, lm, regime, &sp, shape))
}

/// the pure construction behind the wild generator (also used by the fuzz target)
pub fn wild_from_raw(mut base: ProblemCase, raws: &[Vec<u16>], lm: LmCfg, regime: u16, sp: &[(u16, u16, u16)], shape: u16) -> C08Case {
    {
        {
            let mut updates = crate::gen::alpha_list(&base.spec, raws);
            // degenerate shapes: N < M, N = 1
            let m = base.spec.m();
            match pick(shape, 8) {
                0 if m > 1 => {
                    let n = 1 + pick(shape.rotate_left(3), m - 1);
                    base.x.truncate(n);
                    for c in base.y.iter_mut() {
                        c.truncate(n);
                    }
                    if let Some(w) = &mut base.w {
                        w.truncate(n);
                    }
                }
                1 => {
                    base.x.truncate(1);
                    for c in base.y.iter_mut() {
                        c.truncate(1);
                    }
                    if let Some(w) = &mut base.w {
                        w.truncate(1);
                    }
                }
                _ => {}
            }
            // special values with probability 0 / 2% / 20% per float
            let prob_16 = [0u32, 1311, 13107][pick(regime, 3)]; // out of 65536
            let mut i = 0usize;
            let mut wild = |v: &mut f64| {
                let (a, b, c) = sp[i % sp.len()];
                i += 1;
                if (a as u32) < prob_16 {
                    *v = special(b, c);
                }
            };
            // starts anywhere: far, negative decay constants etc. (independent of the regime)
            if pick(regime.rotate_left(7), 3) == 0 {
                for (k, v) in base.alpha.iter_mut().enumerate() {
                    let (a, b, _) = sp[(k + 11) % sp.len()];
                    *v = match pick(a, 6) {
                        0 => -*v,
                        1 => *v * 1e3,
                        2 => *v * 1e-4,
                        3 => 0.0,
                        4 => -1e-2 * (1.0 + b as f64 / 65536.0),
                        _ => *v,
                    };
                }
            }
            for v in base.x.iter_mut() {
                wild(v);
            }
            for v in base.alpha.iter_mut() {
                wild(v);
            }
            for c in base.y.iter_mut() {
                for v in c.iter_mut() {
                    wild(v);
                }
            }
            if let Some(w) = &mut base.w {
                for v in w.iter_mut() {
                    wild(v);
                }
            }
            if let Some(e) = &mut base.eps {
                wild(e);
            }
            for u in updates.iter_mut() {
                for v in u.iter_mut() {
                    wild(v);
                }
            }
            let with_stats = shape % 2 == 0;
            C08Case { base, updates, lm, with_stats }
        }
    }
}

impl Property for C08 {
    type Case = C08Case;
    fn id(&self) -> &'static str {
        "C08"
    }
    fn rule(&self) -> String {
        format!("proptest through a watched worker process: catalogue models (builder-made and hand-written, f32/f64, seq/par, single/multiple rhs) where every float of x, Y, w, alpha0, epsilon and of 0..2 further parameter vectors is replaced with probability 0 / 2% / 20% (three regimes) by a value from {{NaN, ±inf, ±0, MAX, f32::MAX-scale, MIN_POSITIVE, subnormals, raw bit patterns, ±10^U(-20,20)}}; starts anywhere (negated, x1e3, x1e-4, zero, small negative); degenerate shapes N < M and N = 1; fit and fit_with_statistics (+ confidence band, correlation, best fit) under generated optimizer settings (patience up to 30). The case is executed in a child process; the parent polls the child's CPU time: > {CPU_BUDGET} s => killed and re-run in a fresh process with {CPU_BUDGET_CONFIRM} s before it is reported as a hang. Oracle: no panic (caught in the child), no process death, an answer within the CPU budget, Ok => final W∘Phi and residuals finite, non-finite W∘Phi => residuals/coefficients absent and the fit is Err. Executed in the release build and in the overflow-checked build (evidence key checked_profile). Non-trivial: a non-finite basis matrix was visited, or special values were present in the input, or the fit did not succeed")
    }
    fn assumptions(&self) -> Vec<String> {
        vec!["'never loops forever' is decided by a CPU-time budget (10 s where the median case costs < 1 ms), confirmed by an isolated re-run with 30 s; shrinking re-executions get 2 s".into()]
    }
    fn cases(&self, tier: Tier) -> usize {
        let base = match tier {
            Tier::Quick => 150_000,
            Tier::Thorough => 3_000_000,
        };
        if cfg!(debug_assertions) {
            base / 5
        } else {
            base
        }
    }
    fn max_shrink_iters(&self) -> u32 {
        30
    }
    fn strategy(&self, _tier: Tier) -> BoxedStrategy<C08Case> {
        wild_case().boxed()
    }
    fn check(&self, case: &C08Case) -> Check {
        watched(case)
    }
    fn epilogue(&self, tier: Tier, seed: u64, _counters: &BTreeMap<String, u64>, extra: &mut BTreeMap<String, Value>) -> Result<(), (Fail, Value)> {
        run_checked_profile("C08", tier, seed, extra)
    }
}

//! C09 — model failures propagate as absent values and failed fits, never as stale data.
//! Fault enumeration: for every generated scenario a dry run counts the model calls, then a
//! failure is injected at EVERY call index, transient and persistent, in both set_params
//! failure styles.
use super::drive::{lm_strategy, LmCfg};
use super::oracles::{check_state, effective_eps};
use crate::adapt::{build_problem, FitOut, Prob, ProbeEv, Term};
use crate::engine::{Check, Fail, Outcome, Property, Tier};
use crate::fl;
use crate::gen::{case_strategy, CaseCfg, ProblemCase};
use crate::models::{builder_model, BFault, CallKind, CallRec, Ctl, NEVER};
use crate::Sc;
use proptest::prelude::*;
use serde::{Deserialize, Serialize};
use std::sync::atomic::Ordering::SeqCst;
use std::sync::Arc;

pub struct C09;

#[derive(Clone, Debug, Serialize, Deserialize)]
pub struct C09Case {
    pub base: ProblemCase,
    #[serde(with = "fl::vecvec")]
    pub updates: Vec<Vec<f64>>,
    pub lm: LmCfg,
    /// builder-made model with its real failure modes instead of a hand-written one
    pub builder_scenario: bool,
}

#[derive(Clone, Copy, Debug, PartialEq, Eq)]
struct Plan {
    k: usize,
    persistent: bool,
    store_then_fail: bool,
}

/// what the dry run tells about the fit step (indices relative to the start of the step)
#[derive(Clone, Debug)]
struct DryFit {
    /// number of model calls of the fit proper (optimizer), excluding statistics and the
    /// harness' own best_fit() evaluation
    fit_calls: usize,
    /// calls of the statistics phase (single rhs only)
    stats_calls: usize,
    /// relative index of the set_params call of the optimizer's final re-application
    reapply_at: Option<usize>,
    term: Term,
    ok: bool,
}

struct Dry {
    total: usize,
    fit: DryFit,
    /// per call index: (step name, kind)
    labels: Vec<(String, CallKind)>,
}

fn state_absent<T: Sc>(p: &dyn Prob<T>, ctl: &Ctl) -> (bool, bool, bool) {
    let (r, c) = (p.residuals().is_none(), p.coeffs().is_none());
    let j = ctl.suspend(|| p.jacobian().is_none());
    (r, c, j)
}

/// invariants after a parameter update (construction or caller update) given the model calls
/// the update made
fn check_after_update<T: Sc>(p: &dyn Prob<T>, ctl: &Ctl, recs: &[CallRec], eps: f64, step: &str, plan: Option<Plan>) -> Result<(), Fail> {
    let ctx = || format!("{step} (fault plan {plan:?})");
    let failed = match recs.iter().rposition(|r| r.kind == CallKind::SetParams) {
        Some(i) => recs[i].failed || recs.get(i + 1).map(|r| r.kind == CallKind::Eval && r.failed).unwrap_or(false),
        None => false,
    };
    let (r_abs, c_abs, j_abs) = state_absent(p, ctl);
    if failed && !(r_abs && c_abs && j_abs) {
        return Err(Fail::new(
            "c09.stale_after_failure",
            format!("{}: the model failed while the parameters were applied / evaluated, but residuals absent = {r_abs}, coefficients absent = {c_abs}, Jacobian absent = {j_abs} (stale values are being reported)", ctx()),
        ));
    }
    if r_abs != c_abs {
        return Err(Fail::new("state.half_present", format!("{}: residuals absent = {r_abs}, coefficients absent = {c_abs}", ctx())));
    }
    if !r_abs {
        // present values must be the correct ones for the parameters the problem reports
        ctl.suspend(|| check_state(p, eps, &ctx())).map_err(|f| Fail::new(format!("c09.present_but_wrong/{}", f.sub), f.msg))?;
    }
    Ok(())
}

struct RunOut<T: Sc> {
    fo: FitOut<T>,
    absent_at_fit_start: bool,
    fit_start: usize,
    fit_log: Vec<CallRec>,
    log: Vec<(String, CallRec)>,
    ctl: Arc<Ctl>,
}

/// execute the scenario with a hand-written model under an optional fault plan
fn execute<T: Sc>(case: &C09Case, plan: Option<Plan>) -> Result<RunOut<T>, Fail> {
    let base = &case.base;
    let eps = effective_eps::<T>(base.eps);
    let ctl = Ctl::new();
    ctl.logging.store(true, SeqCst);
    if let Some(pl) = plan {
        ctl.arm(pl.k, pl.persistent, pl.store_then_fail);
    }
    let mut log: Vec<(String, CallRec)> = vec![];
    let mut take = |name: &str, ctl: &Ctl| -> Vec<CallRec> {
        let recs = ctl.take_log();
        for r in &recs {
            log.push((name.to_string(), *r));
        }
        recs
    };
    let solver = case.lm.resolved::<T>().solver::<T>();
    // construction
    let mut prob = base.build_at::<T>(None, Some(ctl.clone())).map_err(|e| Fail::new("build", e))?;
    let recs = take("construction", &ctl);
    check_after_update(prob.as_ref(), &ctl, &recs, eps, "construction", plan)?;
    // caller updates
    for (i, u) in case.updates.iter().enumerate() {
        let a: Vec<T> = u.iter().map(|v| T::of(*v)).collect();
        prob.set_params(&a);
        let name = format!("caller update {i}");
        let recs = take(&name, &ctl);
        check_after_update(prob.as_ref(), &ctl, &recs, eps, &name, plan)?;
    }
    // a Jacobian query (not suspended: it makes the derivative calls)
    {
        let absent = prob.residuals().is_none();
        let j = prob.jacobian();
        let recs = take("jacobian query", &ctl);
        let deriv_failed = recs.iter().any(|r| r.kind == CallKind::Deriv && r.failed);
        if (deriv_failed || absent) && j.is_some() {
            return Err(Fail::new(
                "c09.partial_jacobian",
                format!("jacobian query (fault plan {plan:?}): a Jacobian was produced although {}", if absent { "the state is absent" } else { "a partial derivative failed to evaluate" }),
            ));
        }
    }
    // the fit
    let absent_at_fit_start = prob.residuals().is_none();
    let fit_start = ctl.total();
    let fo = if base.mrhs { prob.fit(&solver) } else { prob.fit_stats(&solver) };
    let fit_log = take("fit", &ctl);
    Ok(RunOut { fo, absent_at_fit_start, fit_start, fit_log, log, ctl })
}

fn dry_run<T: Sc>(case: &C09Case) -> Result<Dry, Fail> {
    let out = execute::<T>(case, None)?;
    let total = out.fit_start + out.fit_log.len();
    let labels: Vec<(String, CallKind)> = out.log.iter().map(|(n, r)| (n.clone(), r.kind)).collect();
    // anatomy of the fit step: probe run of the identical optimizer on an identically built
    // problem with its own call log: the model calls made inside minimize() are the fit proper
    let solver = case.lm.resolved::<T>().solver::<T>();
    let ctl2 = Ctl::new();
    ctl2.logging.store(true, SeqCst);
    let mut prob = case.base.build_at::<T>(None, Some(ctl2.clone())).map_err(|e| Fail::new("build", e))?;
    for u in &case.updates {
        let a: Vec<T> = u.iter().map(|v| T::of(*v)).collect();
        prob.set_params(&a);
    }
    let _ = prob.jacobian();
    let _ = ctl2.take_log();
    let mut events: Vec<ProbeEv> = vec![];
    {
        let mut cb = |_p: &dyn Prob<T>, ev: ProbeEv, _: &[T]| events.push(ev);
        let _ = prob.minimize_probed(&solver, &mut cb);
    }
    let probe_log = ctl2.take_log();
    let fit_calls = probe_log.len();
    // re-application: the last set_params is not followed by a residuals query
    let last_set = events.iter().rposition(|e| *e == ProbeEv::AfterSet);
    let has_reapply = match last_set {
        Some(i) => !events[i + 1..].iter().any(|e| *e == ProbeEv::Residuals),
        None => false,
    };
    let p = case.base.spec.p;
    if out.fit_log.len() < fit_calls || out.fit_log[..fit_calls].iter().zip(&probe_log).any(|(a, b)| a.kind != b.kind) {
        return Err(Fail::new("harness", "dry run anatomy: the probe run and the fit make different model calls".to_string()));
    }
    let adapter = usize::from(out.fo.best_fit.is_some());
    let stats_calls = out.fit_log.len().saturating_sub(fit_calls + adapter);
    if !case.base.mrhs && out.fo.ok && stats_calls != p + 2 {
        return Err(Fail::new("harness", format!("dry run anatomy: {} calls in the fit step, {fit_calls} optimizer calls, {adapter} adapter call, {stats_calls} statistics calls (expected {})", out.fit_log.len(), p + 2)));
    }
    let reapply_at = if has_reapply { probe_log.iter().rposition(|r| r.kind == CallKind::SetParams) } else { None };
    Ok(Dry { total, fit: DryFit { fit_calls, stats_calls, reapply_at, term: out.fo.report.term.clone(), ok: out.fo.ok }, labels })
}

fn judge_fit<T: Sc>(case: &C09Case, dry: &Dry, plan: Plan, out: &RunOut<T>) -> Result<&'static str, Fail> {
    let base = &case.base;
    let eps = effective_eps::<T>(base.eps);
    let fo = &out.fo;
    let first_fail = out.fit_log.iter().position(|r| r.failed);
    let ctx = format!("fault plan {plan:?}");
    let is_user = matches!(fo.report.term, Term::User(_));
    let mut class = "fit:fault-elsewhere";
    if out.absent_at_fit_start {
        if fo.ok || !is_user {
            return Err(Fail::new("c09.fit_ok_from_absent_state", format!("{ctx}: the problem had no residuals when fit started, but fit returned {} with {:?}", if fo.ok { "Ok" } else { "Err" }, fo.report.term)));
        }
        class = "fit:absent-at-start";
    } else if let Some(j) = first_fail {
        let d = &dry.fit;
        let in_reapply = d.reapply_at.map(|l| j == l || j == l + 1).unwrap_or(false);
        if j < d.fit_calls && !in_reapply {
            if fo.ok || !is_user {
                return Err(Fail::new(
                    "c09.fit_ok_despite_failure",
                    format!("{ctx}: the model failed at call {j} of the fit ({:?}), but fit returned {} with termination {:?}", out.fit_log[j].kind, if fo.ok { "Ok" } else { "Err" }, fo.report.term),
                ));
            }
            class = "fit:failure-seen-by-optimizer";
        } else if in_reapply {
            // the optimizer does not query the problem again: its verdict may stand, but the
            // state at the failure must be absent and statistics must not be produced
            if fo.problem.coeffs().is_some() || fo.coeffs.is_some() || fo.best_fit.is_some() {
                return Err(Fail::new("c09.reapply_failure_hidden", format!("{ctx}: the final re-application of the accepted parameters failed, but coefficients / best fit are reported")));
            }
            if !base.mrhs && fo.ok {
                return Err(Fail::new("c09.reapply_failure_statistics", format!("{ctx}: the final re-application failed, but fit_with_statistics returned Ok")));
            }
            class = "fit:failure-in-final-reapplication";
        } else if j < d.fit_calls + d.stats_calls {
            // statistics phase
            if fo.ok {
                return Err(Fail::new("c09.statistics_failure_ignored", format!("{ctx}: the model failed at call {j} of the fit step (statistics phase), but fit_with_statistics returned Ok")));
            }
            if fo.report.term != d.term {
                return Err(Fail::new("c09.statistics_failure_changes_report", format!("{ctx}: a failure in the statistics phase changed the termination from {:?} to {:?}", d.term, fo.report.term)));
            }
            class = "fit:failure-in-statistics";
        } else {
            class = "fit:failure-in-harness-call";
        }
    } else if fo.ok != dry.fit.ok || fo.report.term != dry.fit.term {
        // no failure during the fit and a present state at its start: same as the dry run,
        // unless a transient failure before changed the starting parameters (keep-old style)
        class = "fit:different-start";
    }
    // the returned problem obeys the same rules
    let ctl_dummy = Ctl::new();
    let recs = &out.fit_log;
    let failed_update = match recs.iter().rposition(|r| r.kind == CallKind::SetParams) {
        Some(i) => recs[i].failed || recs.get(i + 1).map(|r| r.kind == CallKind::Eval && r.failed).unwrap_or(false),
        None => false,
    };
    let p = fo.problem.as_ref();
    let (r_abs, c_abs) = (p.residuals().is_none(), p.coeffs().is_none());
    if failed_update && !(r_abs && c_abs) {
        return Err(Fail::new("c09.stale_after_failure", format!("{ctx}: the last parameter update inside fit failed, but the returned problem reports residuals/coefficients")));
    }
    if r_abs != c_abs {
        return Err(Fail::new("state.half_present", format!("{ctx}: returned problem: residuals absent = {r_abs}, coefficients absent = {c_abs}")));
    }
    let _ = ctl_dummy;
    if !r_abs {
        // present values must be the correct ones for the parameters the problem reports
        out.ctl.suspend(|| check_state(p, eps, &format!("returned problem ({ctx})"))).map_err(|f| Fail::new(format!("c09.present_but_wrong/{}", f.sub), f.msg))?;
    }
    Ok(class)
}

fn run_hand<T: Sc>(case: &C09Case) -> Check {
    let mut out = Outcome::default();
    let dry = dry_run::<T>(case)?;
    let mut injected = 0u64;
    let mut triples: std::collections::BTreeSet<String> = Default::default();
    for k in 0..dry.total {
        for persistent in [false, true] {
            for store in [false, true] {
                // the failure style only matters for set_params calls
                if store && dry.labels[k].1 != CallKind::SetParams && !persistent {
                    continue;
                }
                let plan = Plan { k, persistent, store_then_fail: store };
                let run = execute::<T>(case, Some(plan))?;
                injected += 1;
                let class = judge_fit::<T>(case, &dry, plan, &run)?;
                triples.insert(format!("{}/{:?}/{}", dry.labels[k].0.split(' ').next().unwrap_or(""), dry.labels[k].1, if persistent { "persistent" } else { "transient" }));
                out.class(class);
            }
        }
    }
    out.classes.sort();
    out.classes.dedup();
    for t in &triples {
        out.class(format!("hit:{t}"));
    }
    out.count("injected_runs", injected);
    out.count("model_calls_in_dry_runs", dry.total as u64);
    out.max("model_calls_per_scenario", dry.total as f64);
    out.nontrivial = triples.len() >= 4;
    out.class(format!("dry-fit:{}", dry.fit.term.tag()));
    out.class(case.base.flavour());
    for r in case.base.regime() {
        out.class(r);
    }
    Ok(out)
}

/// builder-made model: wrong-length parameter vectors through the problem, closures that
/// return a wrong length from the k-th call on (for every k of the dry run)
fn run_builder<T: Sc>(case: &C09Case) -> Check {
    let mut out = Outcome::default();
    let base = &case.base;
    let eps = effective_eps::<T>(base.eps);
    let x: Vec<T> = base.xs();
    let a0: Vec<T> = base.alphas();
    let bd = base.build_cfg::<T>();
    let solver = case.lm.resolved::<T>().solver::<T>();
    let n = base.n();
    let execute = |fault: &Arc<BFault>, break_at: usize, wrong_len: usize| -> Result<(usize, bool), Fail> {
        fault.arm(break_at, true, wrong_len);
        let ctx = format!("closures return length {wrong_len} from call {break_at} on");
        let model = builder_model(&base.spec, &x, &a0, Some(fault.clone()), base.reverse_derivs).map_err(|e| Fail::new("build", format!("{e:?}")))?;
        let mut prob = build_problem(model, &bd).map_err(|e| Fail::new("build", e))?;
        let check = |p: &dyn Prob<T>, step: &str| -> Result<(), Fail> {
            let fired = fault.fired.load(SeqCst) > 0;
            let (r, c) = (p.residuals().is_none(), p.coeffs().is_none());
            if fired && !(r && c) {
                return Err(Fail::new("c09.stale_after_failure", format!("{step} ({ctx}): a basis function returned a vector of the wrong length during this update, but residuals/coefficients are reported")));
            }
            if r != c {
                return Err(Fail::new("state.half_present", format!("{step} ({ctx}): residuals absent = {r}, coefficients absent = {c}")));
            }
            if !r {
                // suspend the fault for the oracle's own evaluations
                let (b, p0) = (fault.break_at.swap(NEVER, SeqCst), fault.calls.load(SeqCst));
                let res = check_state(p, eps, step);
                fault.calls.store(p0, SeqCst);
                fault.break_at.store(b, SeqCst);
                res.map_err(|f| Fail::new(format!("c09.present_but_wrong/{}", f.sub), f.msg))?;
            }
            Ok(())
        };
        check(prob.as_ref(), "construction")?;
        for (i, u) in case.updates.iter().enumerate() {
            let before = prob.params();
            // a wrong-length vector first: must be rejected, state absent, parameters unchanged
            let wrong: Vec<T> = (0..u.len() + 1 + i % 2).map(|k| T::of(1.0 + k as f64)).collect();
            prob.set_params(&wrong);
            if prob.residuals().is_some() || prob.coeffs().is_some() {
                return Err(Fail::new("c09.stale_after_rejected_params", format!("caller update {i} ({ctx}): a parameter vector of length {} was rejected by the model, but residuals/coefficients are still reported", wrong.len())));
            }
            let after = prob.params();
            if before.len() != after.len() || before.iter().zip(&after).any(|(a, b)| a.f() != b.f()) {
                return Err(Fail::new("c09.params_after_rejection", format!("caller update {i}: parameters changed from {before:?} to {after:?} by a rejected vector")));
            }
            let a: Vec<T> = u.iter().map(|v| T::of(*v)).collect();
            prob.set_params(&a);
            check(prob.as_ref(), &format!("caller update {i}"))?;
        }
        // jacobian query
        {
            let fired_before = fault.fired.load(SeqCst);
            let j = prob.jacobian();
            if fault.fired.load(SeqCst) > fired_before && j.is_some() {
                return Err(Fail::new("c09.partial_jacobian", format!("jacobian query ({ctx}): a derivative returned a vector of the wrong length, but a Jacobian was produced")));
            }
        }
        let absent_at_start = prob.residuals().is_none();
        let fit_start_calls = fault.calls.load(SeqCst);
        let fired_before = fault.fired.load(SeqCst);
        let fo = prob.fit(&solver);
        let calls_in_fit = fault.calls.load(SeqCst) - fit_start_calls;
        let fired_in_fit = fault.fired.load(SeqCst) > fired_before;
        if absent_at_start && (fo.ok || !matches!(fo.report.term, Term::User(_))) {
            return Err(Fail::new("c09.fit_ok_from_absent_state", format!("({ctx}) the problem had no residuals when fit started, but fit returned {:?}", fo.report.term)));
        }
        Ok((calls_in_fit, fired_in_fit && fo.ok))
    };
    // dry run: how many closure calls does the scenario make, and how many of them in fit?
    let fault = BFault::new();
    let (dry_fit_calls, _) = execute(&fault, NEVER, 0)?;
    let total = fault.calls.load(SeqCst);
    let m = base.spec.m();
    let mut injected = 0u64;
    for k in 0..total {
        let wrong_len = [0, n + 1, n.saturating_sub(1)][k % 3];
        if wrong_len == n {
            continue;
        }
        let f = BFault::new();
        let (_, ok_despite_fault) = execute(&f, k, wrong_len)?;
        injected += 1;
        if ok_despite_fault {
            // legitimate only if the first failing call is the harness' own best_fit()
            // evaluation after the fit (the last M closure calls of the dry run) or the final
            // re-application (not identifiable without a call log): only the former is excused
            let fit_begin = total - dry_fit_calls;
            let in_adapter = k >= total.saturating_sub(m);
            if !in_adapter && k >= fit_begin {
                // the failure happened inside fit proper: Ok is only acceptable for the final
                // re-application, in which case no coefficients may be reported — checked by the
                // hand-written scenarios with full call logs; here we only count it
                out.class("builder:ok-with-failure-inside-fit(not judged)");
            }
        }
    }
    out.count("injected_runs", injected);
    out.count("closure_calls_in_dry_runs", total as u64);
    out.nontrivial = injected >= 4;
    out.class("builder-scenario");
    out.class(base.flavour());
    for r in base.regime() {
        out.class(r);
    }
    Ok(out)
}

impl Property for C09 {
    type Case = C09Case;
    fn id(&self) -> &'static str {
        "C09"
    }
    fn level(&self) -> &'static str {
        "fault_enumeration"
    }
    fn regimes(&self) -> &'static str {
        crate::gen::REGIMES_CATALOGUE
    }
    fn rule(&self) -> String {
        "proptest generates scenarios = (catalogue model, data, weights, 0..3 caller updates, then fit_with_statistics (single rhs) or fit (multiple rhs), with generated optimizer settings). A dry run counts and labels the T model calls (set_params / eval / each partial derivative, by step); then a failure is injected at EVERY call index k in [0,T), transient and persistent, and for set_params calls in both failure styles (keep old parameters / store then fail) — exhaustive over fault positions of the scenario. Builder-made scenarios use the models' real failure modes: wrong-length parameter vectors through the problem and closures returning a wrong length from the k-th call on, for every k. Oracle after every top-level step: failed parameter application or evaluation => residuals, coefficients and Jacobian all absent; failed derivative => that jacobian() is None; present values satisfy the C01/C02 oracles for the reported parameters; a failure seen by the optimizer or an absent state at its start => Err with termination User; a failure in the optimizer's final re-application => absent state and no statistics; a failure in the statistics phase => Err; never a panic. Non-trivial: scenarios whose injected faults hit >= 4 distinct (step, call kind, mode) triples".into()
    }
    fn assumptions(&self) -> Vec<String> {
        vec!["the anatomy of the fit step (optimizer calls / statistics calls / final re-application) is taken from a probe run of the same deterministic optimizer".into()]
    }
    fn cases(&self, tier: Tier) -> usize {
        match tier {
            Tier::Quick => 400,
            Tier::Thorough => 100_000,
        }
    }
    fn max_shrink_iters(&self) -> u32 {
        60
    }
    fn strategy(&self, _tier: Tier) -> BoxedStrategy<C09Case> {
        let cfg = CaseCfg { max_s: 3, max_n: 16, allow_f32: true, ..CaseCfg::default() };
        (case_strategy(cfg), proptest::collection::vec(proptest::collection::vec(any::<u16>(), 8), 0..=3), lm_strategy(6), any::<u16>())
            .prop_map(|(mut base, raws, lm, sel)| {
                let builder_scenario = sel % 4 == 0;
                base.hand = !builder_scenario;
                if builder_scenario {
                    base.mrhs = true;
                } else if base.s() == 1 {
                    base.mrhs = sel % 8 < 2;
                }
                let updates = crate::gen::alpha_list(&base.spec, &raws);
                C09Case { base, updates, lm, builder_scenario }
            })
            .boxed()
    }
    fn pool_of(&self, case: &Self::Case) -> Option<usize> {
        case.base.pool_size()
    }
    /// the same search again, a fifth of the cases, in the overflow-checked build of the harness
    /// (debug assertions and overflow checks of the library on): "never a panic" is a claim about
    /// every build profile
    fn epilogue(&self, tier: Tier, seed: u64, _counters: &std::collections::BTreeMap<String, u64>, extra: &mut std::collections::BTreeMap<String, serde_json::Value>) -> Result<(), (Fail, serde_json::Value)> {
        crate::engine::run_checked_profile_n("C09", tier, seed, Some((self.cases(tier) / 5).max(50)), extra)
    }
    fn check(&self, case: &C09Case) -> Check {
        match (case.builder_scenario, case.base.f32) {
            (false, false) => run_hand::<f64>(case),
            (false, true) => run_hand::<f32>(case),
            (true, false) => run_builder::<f64>(case),
            (true, true) => run_builder::<f32>(case),
        }
    }
}

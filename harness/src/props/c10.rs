//! C10 — problem state is a function of the current α only (no history, no garbage).
use super::oracles::effective_eps;
use crate::adapt::{build_problem, Prob};
use crate::engine::poison::{pool, with_pattern};
use crate::engine::{pick, Check, Fail, Outcome, Property, Tier};
use crate::fl;
use crate::gen::{alpha_tame, case_strategy, CaseCfg, ProblemCase};
use crate::models::{builder_model, Ctl, HandModel};
use crate::Sc;
use proptest::prelude::*;
use serde::{Deserialize, Serialize};

pub struct C10;

#[derive(Clone, Debug, Serialize, Deserialize)]
pub enum Op {
    /// apply a parameter vector (tame, extreme or a repetition of an earlier one)
    Set(#[serde(with = "fl::vec")] Vec<f64>),
    /// apply a vector of the wrong length (rejected by the model)
    SetWrongLen(usize),
    /// hand-written models only: the model's set_params fails (transient), style keep-old / store-then-fail
    SetFault(#[serde(with = "fl::vec")] Vec<f64>, bool),
    Residuals,
    Jacobian,
    Coefficients,
    /// evaluate the model (basis matrix and all derivative matrices) through the problem
    ModelEval,
}

#[derive(Clone, Debug, Serialize, Deserialize)]
pub struct C10Case {
    pub base: ProblemCase,
    pub ops: Vec<Op>,
    pub pool: usize,
}

/// bit image of what a problem reports (None = absent)
#[derive(Clone, Debug, PartialEq, Eq)]
struct Snap {
    params: Vec<u64>,
    coeffs: Option<Vec<u64>>,
    res: Option<Vec<u64>>,
    jac: Option<Vec<u64>>,
}

fn bits<T: Sc>(v: impl Iterator<Item = T>) -> Vec<u64> {
    // all NaNs are identified (payloads are not part of the contract)
    v.map(|x| if x.f().is_nan() { u64::MAX } else { x.bits() }).collect()
}

fn snap<T: Sc>(p: &dyn Prob<T>) -> Snap {
    Snap {
        params: bits(p.params().into_iter()),
        coeffs: p.coeffs().map(|c| bits(c.iter().copied())),
        res: p.residuals().map(|r| bits(r.into_iter())),
        jac: p.jacobian().map(|j| bits(j.iter().copied())),
    }
}

fn poison_bits<T: Sc>(pattern: u8) -> u64 {
    if T::NAME == "f32" {
        u32::from_ne_bytes([pattern; 4]) as u64
    } else {
        u64::from_ne_bytes([pattern; 8])
    }
}

struct Trace {
    /// (op index, what was observed) — compared between the two poison patterns
    obs: Vec<(usize, String, Vec<Option<Vec<u64>>>)>,
    fresh_compares: u64,
    had_repeat_or_fail: bool,
}

fn exec<T: Sc>(case: &C10Case, pattern: u8) -> Result<Trace, Fail> {
    let base = &case.base;
    let _ = effective_eps::<T>(base.eps);
    let run = || -> Result<Trace, Fail> {
        let ctl = Ctl::new();
        let mut prob: Box<dyn Prob<T>> = base.build_at::<T>(None, Some(ctl.clone())).map_err(|e| Fail::new("build", e))?;
        let mut tr = Trace { obs: vec![], fresh_compares: 0, had_repeat_or_fail: false };
        let mut applied: Vec<Vec<u64>> = vec![bits(base.alphas::<T>().into_iter())];
        let pz = poison_bits::<T>(pattern);
        let check_poison = |what: &str, v: &Option<Vec<u64>>, i: usize| -> Result<(), Fail> {
            if pattern != 0xFF {
                if let Some(v) = v {
                    // An element that merely EQUALS the poison value proves nothing: with observations in
                    // units of 1e16 an f32 residual coincides with 0x5a5a5a5a (1.5e16) once in ~2^32 elements,
                    // i.e. every few dozen runs (silence seed 11022). Uninitialised memory is decided by the
                    // differential between the two poison patterns and by the comparison with a freshly
                    // built problem, both of which are exact; the coincidence is only counted.
                    if v.iter().any(|b| *b == pz) {
                        let _ = (what, i);
                    }
                }
            }
            Ok(())
        };
        for (i, op) in case.ops.iter().enumerate() {
            match op {
                Op::Set(a) | Op::SetFault(a, _) => {
                    let at: Vec<T> = a.iter().map(|v| T::of(*v)).collect();
                    let faulty = matches!(op, Op::SetFault(..)) && base.hand;
                    if let (Op::SetFault(_, store), true) = (op, base.hand) {
                        ctl.arm(ctl.total(), false, *store);
                    }
                    prob.set_params(&at);
                    ctl.disarm();
                    let s = snap(prob.as_ref());
                    check_poison("coefficients", &s.coeffs, i)?;
                    check_poison("residuals", &s.res, i)?;
                    check_poison("Jacobian", &s.jac, i)?;
                    if faulty {
                        tr.had_repeat_or_fail = true;
                    } else {
                        let ab = bits(at.iter().copied());
                        if applied.contains(&ab) {
                            tr.had_repeat_or_fail = true;
                        }
                        applied.push(ab);
                        // a freshly built problem whose model starts at this alpha
                        let fresh = base.build_at::<T>(Some(&at), None).map_err(|e| Fail::new("build", e))?;
                        let f = snap(fresh.as_ref());
                        tr.fresh_compares += 1;
                        if f != s {
                            let which = if f.params != s.params {
                                "params"
                            } else if f.coeffs != s.coeffs {
                                "coefficients"
                            } else if f.res != s.res {
                                "residuals"
                            } else {
                                "Jacobian"
                            };
                            return Err(Fail::new(
                                "c10.history_dependence",
                                format!("op {i}: after applying {a:?} the {which} differ (bitwise) from those of a freshly built problem at the same parameters (poison {pattern:#x})"),
                            ));
                        }
                    }
                    tr.obs.push((i, "set".into(), vec![Some(s.params), s.coeffs, s.res, s.jac]));
                }
                Op::SetWrongLen(len) => {
                    let at: Vec<T> = (0..*len).map(|k| T::of(1.0 + k as f64)).collect();
                    prob.set_params(&at);
                    tr.had_repeat_or_fail = true;
                    let s = snap(prob.as_ref());
                    tr.obs.push((i, "set-wrong-length".into(), vec![Some(s.params), s.coeffs, s.res, s.jac]));
                }
                Op::Residuals => {
                    let (a, b) = (prob.residuals().map(|r| bits(r.into_iter())), prob.residuals().map(|r| bits(r.into_iter())));
                    if a != b {
                        return Err(Fail::new("c10.repeat_query", format!("op {i}: two consecutive residuals() calls differ")));
                    }
                    check_poison("residuals", &a, i)?;
                    tr.obs.push((i, "residuals".into(), vec![a]));
                }
                Op::Jacobian => {
                    let (a, b) = (prob.jacobian().map(|j| bits(j.iter().copied())), prob.jacobian().map(|j| bits(j.iter().copied())));
                    if a != b {
                        return Err(Fail::new("c10.repeat_query", format!("op {i}: two consecutive jacobian() calls differ")));
                    }
                    check_poison("Jacobian", &a, i)?;
                    tr.obs.push((i, "jacobian".into(), vec![a]));
                }
                Op::Coefficients => {
                    let (a, b) = (prob.coeffs().map(|c| bits(c.iter().copied())), prob.coeffs().map(|c| bits(c.iter().copied())));
                    if a != b {
                        return Err(Fail::new("c10.repeat_query", format!("op {i}: two consecutive linear_coefficients() calls differ")));
                    }
                    check_poison("coefficients", &a, i)?;
                    tr.obs.push((i, "coefficients".into(), vec![a]));
                }
                Op::ModelEval => {
                    let mut v = vec![prob.phi().ok().map(|m| bits(m.iter().copied()))];
                    for k in 0..base.spec.p {
                        v.push(prob.dphi(k).ok().map(|m| bits(m.iter().copied())));
                    }
                    for (k, m) in v.iter().enumerate() {
                        check_poison(if k == 0 { "model evaluation" } else { "model derivative" }, m, i)?;
                    }
                    tr.obs.push((i, "model".into(), v));
                }
            }
        }
        Ok(tr)
    };
    with_pattern(pattern, || if base.par { pool(case.pool).install(run) } else { run() })
}

fn run<T: Sc>(case: &C10Case) -> Check {
    let mut out = Outcome::default();
    let a = exec::<T>(case, 0xFF)?;
    let b = exec::<T>(case, 0x5A)?;
    if a.obs.len() != b.obs.len() {
        return Err(Fail::new("c10.poison_differential", "histories have different lengths under the two poison patterns".to_string()));
    }
    for ((i, what, va), (_, _, vb)) in a.obs.iter().zip(&b.obs) {
        if va != vb {
            return Err(Fail::new(
                "c10.poison_differential",
                format!("op {i} ({what}): the reported values depend on the contents of freshly allocated memory (differ between poison patterns 0xFF and 0x5A)"),
            ));
        }
    }
    out.nontrivial = case.ops.len() >= 3 && a.had_repeat_or_fail;
    out.count("fresh_problem_comparisons", a.fresh_compares + b.fresh_compares);
    out.class(case.base.flavour());
    for r in case.base.regime() {
        out.class(r);
    }
    out.class(format!("ops={}", (case.ops.len() / 4) * 4));
    if case.ops.iter().any(|o| matches!(o, Op::SetWrongLen(_))) {
        out.class("op:wrong-length");
    }
    if case.ops.iter().any(|o| matches!(o, Op::SetFault(..))) && case.base.hand {
        out.class("op:model-fault");
    }
    if case.ops.iter().any(|o| matches!(o, Op::Set(a) if a.iter().any(|v| v.abs() > 1e6 || *v <= 0.0))) {
        out.class("op:extreme-alpha");
    }
    Ok(out)
}

/// builder-made models evaluated directly (SeparableModel::eval / eval_partial_deriv) under
/// the two patterns
fn model_direct<T: Sc>(case: &C10Case) -> Result<(), Fail> {
    if case.base.hand {
        return Ok(());
    }
    let x: Vec<T> = case.base.xs();
    let a: Vec<T> = case.base.alphas();
    let eval = |pattern: u8| -> Result<Vec<Option<Vec<u64>>>, Fail> {
        with_pattern(pattern, || {
            use varpro::prelude::SeparableNonlinearModel;
            let m = builder_model(&case.base.spec, &x, &a, None, case.base.reverse_derivs).map_err(|e| Fail::new("build", format!("{e:?}")))?;
            let mut v = vec![m.eval().ok().map(|m| bits(m.iter().copied()))];
            for k in 0..case.base.spec.p {
                v.push(m.eval_partial_deriv(k).ok().map(|m| bits(m.iter().copied())));
            }
            Ok(v)
        })
    };
    let (va, vb) = (eval(0xFF)?, eval(0x5A)?);
    if va != vb {
        return Err(Fail::new("c10.poison_differential", "SeparableModel::eval / eval_partial_deriv depend on the contents of freshly allocated memory".to_string()));
    }
    let _ = (HandModel::<T>::new, build_problem::<T, HandModel<T>>);
    Ok(())
}

impl Property for C10 {
    type Case = C10Case;
    fn id(&self) -> &'static str {
        "C10"
    }
    fn regimes(&self) -> &'static str {
        crate::gen::REGIMES_CATALOGUE
    }
    fn rule(&self) -> String {
        "proptest: histories of up to 12 operations over {set_params(tame | extreme | repeated alpha), set_params(wrong length), set_params with an injected model failure (hand-written models; keep-old and store-then-fail styles), residuals(), jacobian(), linear_coefficients(), model evaluation} on all problem flavours; each history is executed twice, with every fresh heap allocation of the executing threads (including the rayon workers of parallel problems) pre-filled with 0xFF and with 0x5A by the harness' global allocator. Oracle: after every successful update parameters, coefficients, residuals and Jacobian are bitwise equal to those of a freshly built problem whose model starts at that alpha; repeated queries are bitwise equal; the two poison runs are bitwise equal (an uninitialised element would be 0xFF.. in one run and 0x5A.. in the other). Extreme values include +0.0/-0.0 (also as pairs of updates that differ only in the sign of a zero) and values that put the largest basis value just below the overflow threshold of the scalar type. For hand-written models a clone of the problem is updated and queried in between: the original must report the same bits before and afterwards, and the clone must not change when the original is queried. Non-trivial: >= 3 operations including a repeated alpha or a failing update".into()
    }
    fn assumptions(&self) -> Vec<String> {
        vec!["heap contents are sampled by two fill patterns, not quantified over".into(), "bitwise comparison is legitimate because history and fresh problem execute the same deterministic computation".into()]
    }
    fn cases(&self, tier: Tier) -> usize {
        match tier {
            Tier::Quick => 200_000,
            Tier::Thorough => 3_000_000,
        }
    }
    fn strategy(&self, _tier: Tier) -> BoxedStrategy<C10Case> {
        let cfg = CaseCfg { max_s: 4, ..CaseCfg::default() };
        (
            case_strategy(cfg),
            proptest::collection::vec((any::<u16>(), proptest::collection::vec(any::<u16>(), 8), any::<u16>()), 1..=12),
            any::<u16>(),
        )
            .prop_map(|(base, raw_ops, pl)| c10_from_raw(base, raw_ops, pl))
            .boxed()
    }
    fn check(&self, case: &C10Case) -> Check {
        // clones of a problem are independent objects (hand-written models; the second parameter
        // vector is the first one the history applies)
        let other: Option<&Vec<f64>> = case.ops.iter().find_map(|o| if let Op::Set(a) = o { Some(a) } else { None });
        if case.base.f32 {
            model_direct::<f32>(case)?;
            if let Some(o) = other {
                super::clones::check::<f32>(&case.base, o)?;
            }
            run::<f32>(case)
        } else {
            model_direct::<f64>(case)?;
            if let Some(o) = other {
                super::clones::check::<f64>(&case.base, o)?;
            }
            run::<f64>(case)
        }
    }
}

/// the pure construction behind the strategy (also used by the fuzz target c10_history)
pub fn c10_from_raw(base: ProblemCase, raw_ops: Vec<(u16, Vec<u16>, u16)>, pl: u16) -> C10Case {

                let mut ops: Vec<Op> = vec![];
                let mut earlier: Vec<Vec<f64>> = vec![base.alpha.clone()];
                let extremes = [0.0, -1.0, 1e-300, 1e30, -1e-3, 1e6, 3.0e-2, -250.0, -0.0];
                for (sel, us, aux) in raw_ops {
                    let op = match pick(sel, 16) {
                        3 if aux % 2 == 0 => {
                            // a pair of updates that are numerically equal but not bitwise: one
                            // coordinate is +0.0 in the first and -0.0 in the second (or the other way
                            // round) — exp(-x/+0) and exp(-x/-0) are as different as can be, while
                            // `==` on the parameter vectors cannot tell them apart
                            let mut a = alpha_tame(&base.spec, &us, 0);
                            let k = pick(aux, a.len());
                            a[k] = if aux % 4 == 0 { 0.0 } else { -0.0 };
                            ops.push(Op::Set(a.clone()));
                            a[k] = -a[k];
                            earlier.push(a.clone());
                            Op::Set(a)
                        }
                        0..=3 => {
                            let a = alpha_tame(&base.spec, &us, 0);
                            earlier.push(a.clone());
                            Op::Set(a)
                        }
                        4 | 5 => Op::Set(earlier[pick(aux, earlier.len())].clone()),
                        6 => {
                            let mut a = alpha_tame(&base.spec, &us, 0);
                            let k = pick(aux, a.len());
                            // besides the fixed extremes: values that put the largest basis value just
                            // below the overflow threshold of the scalar type (finite matrices with
                            // entries of 1e304..1e308, f32: 1e38) — where a decomposition may break down
                            let mut cands: Vec<f64> = extremes.to_vec();
                            let xm = base.x.iter().fold(0.0f64, |m, v| m.max(v.abs())).max(1e-300);
                            let lim = if base.f32 { [87.0, 88.6] } else { [700.0, 709.7] };
                            match base.spec.roles()[k] {
                                crate::spec::Role::Tau => cands.extend([-xm / lim[0], -xm / lim[1]]),
                                crate::spec::Role::Rate => cands.extend([-lim[0] / xm, -lim[1] / xm]),
                                _ => {}
                            }
                            a[k] = cands[pick(us[7], cands.len())];
                            earlier.push(a.clone());
                            Op::Set(a)
                        }
                        7 => {
                            // change exactly one coordinate of the previous vector
                            let mut a = earlier.last().unwrap().clone();
                            let b = alpha_tame(&base.spec, &us, 0);
                            let k = pick(aux, a.len());
                            a[k] = b[k];
                            earlier.push(a.clone());
                            Op::Set(a)
                        }
                        8 => Op::SetWrongLen([0, base.spec.p + 1, base.spec.p.saturating_sub(1), 3 * base.spec.p][pick(aux, 4)]),
                        9 => Op::SetFault(alpha_tame(&base.spec, &us, 0), aux % 2 == 0),
                        10 | 11 => Op::Residuals,
                        12 | 13 => Op::Jacobian,
                        14 => Op::Coefficients,
                        _ => Op::ModelEval,
                    };
                    if let Op::SetWrongLen(l) = &op {
                        if *l == base.spec.p {
                            continue;
                        }
                    }
                    ops.push(op);
                }
                C10Case { base, ops, pool: 1 + pick(pl, 4) }
            }

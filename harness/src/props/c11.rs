//! C11 — parallel problems compute exactly what sequential problems compute.
use super::drive::{drive, lm_strategy, LmCfg};
use crate::adapt::{FitOut, Prob};
use crate::engine::poison::pool;
use crate::engine::{pick, Check, Fail, Outcome, Property, Tier};
use crate::gen::{case_strategy, CaseCfg, ProblemCase};
use crate::models::Ctl;
use crate::Sc;
use proptest::prelude::*;
use serde::{Deserialize, Serialize};
use std::sync::atomic::Ordering::SeqCst;

pub struct C11;

#[derive(Clone, Debug, Serialize, Deserialize)]
pub struct C11Case {
    pub base: ProblemCase,
    pub lm: LmCfg,
    pub pools: Vec<usize>,
    /// busy-loop unit for hand-written models' derivative evaluation (schedule jitter)
    pub burn: usize,
    #[serde(with = "crate::fl::vecvec")]
    pub updates: Vec<Vec<f64>>,
}

fn bits<T: Sc>(v: impl Iterator<Item = T>) -> Vec<u64> {
    v.map(|x| if x.f().is_nan() { u64::MAX } else { x.bits() }).collect()
}

#[derive(PartialEq, Eq, Debug)]
struct Snap {
    params: Vec<u64>,
    coeffs: Option<Vec<u64>>,
    res: Option<Vec<u64>>,
    jac: Option<Vec<u64>>,
}
fn snap<T: Sc>(p: &dyn Prob<T>) -> Snap {
    Snap {
        params: bits(p.params().into_iter()),
        coeffs: p.coeffs().map(|c| bits(c.iter().copied())),
        res: p.residuals().map(|r| bits(r.into_iter())),
        jac: p.jacobian().map(|j| bits(j.iter().copied())),
    }
}
fn diff(a: &Snap, b: &Snap) -> &'static str {
    if a.params != b.params {
        "parameters"
    } else if a.coeffs != b.coeffs {
        "coefficients"
    } else if a.res != b.res {
        "residuals"
    } else {
        "Jacobian"
    }
}

fn fit_image<T: Sc>(f: &FitOut<T>) -> (bool, crate::adapt::Term, usize, Vec<u64>, Option<Vec<u64>>, Option<Vec<u64>>, u64) {
    (
        f.ok,
        f.report.term.clone(),
        f.report.evals,
        bits(f.alpha.iter().copied()),
        f.coeffs.as_ref().map(|c| bits(c.iter().copied())),
        f.problem.residuals().map(|r| bits(r.into_iter())),
        if f.report.objective.f().is_nan() { u64::MAX } else { f.report.objective.bits() },
    )
}

fn run<T: Sc>(case: &C11Case) -> Check {
    let mut out = Outcome::default();
    let mut seq_case = case.base.clone();
    seq_case.par = false;
    let mut par_case = case.base.clone();
    par_case.par = true;
    let solver = case.lm.resolved::<T>().solver::<T>();
    let mut states = 0u64;
    for &n in &case.pools {
        let pl = pool(n);
        let ctl = Ctl::new();
        ctl.burn.store(case.burn, SeqCst);
        // the same jitter for the closures of builder-made models
        let bf = crate::models::BFault::new();
        bf.burn.store(case.burn / 4, SeqCst);
        // (1) mirrored LM run: drive the sequential problem, apply the same alpha to the parallel one
        let mut par = pl.install(|| par_case.build_with::<T>(None, Some(ctl.clone()), Some(bf.clone()))).map_err(|e| Fail::new("build", e))?;
        {
            let mut visit = |p: &dyn Prob<T>, tag: &str| -> Result<(), Fail> {
                let a = p.params();
                let s = snap(p);
                let q = pl.install(|| {
                    if tag != "construction" {
                        par.set_params(&a);
                    }
                    snap(par.as_ref())
                });
                states += 1;
                if s != q {
                    return Err(Fail::new(
                        "c11.state",
                        format!("{tag}: {} of the parallel problem (pool of {n}) differ bitwise from the sequential problem's at parameters {:?}", diff(&s, &q), a.iter().map(|v| v.f()).collect::<Vec<_>>()),
                    ));
                }
                Ok(())
            };
            drive::<T>(&seq_case, &case.updates, Some(&case.lm), &mut visit)?;
        }
        // (2) conversion of the parallel problem preserves its state
        {
            let before = { let pr = &mut par; pl.install(move || snap(pr.as_ref())) };
            let conv = par.into_seq();
            if conv.is_par() {
                return Err(Fail::new("c11.into_sequential", "into_sequential() returned a parallel problem".to_string()));
            }
            let after = snap(conv.as_ref());
            if before != after {
                return Err(Fail::new("c11.into_sequential", format!("{} change when a parallel problem is converted to its sequential form", diff(&before, &after))));
            }
        }
        // (3) whole fits
        let fs = seq_case.build::<T>().map_err(|e| Fail::new("build", e))?.fit(&solver);
        let fp = pl.install(|| par_case.build_with::<T>(None, Some(ctl.clone()), Some(bf.clone())).map(|p| p.fit(&solver))).map_err(|e| Fail::new("build", e))?;
        let (a, b) = (fit_image(&fs), fit_image(&fp));
        if a != b {
            let what = if a.0 != b.0 || a.1 != b.1 {
                format!("termination ({:?}/{} vs {:?}/{})", a.1, a.0, b.1, b.0)
            } else if a.2 != b.2 {
                format!("number of evaluations ({} vs {})", a.2, b.2)
            } else if a.3 != b.3 {
                "fitted parameters".to_string()
            } else if a.4 != b.4 {
                "coefficients".to_string()
            } else if a.5 != b.5 {
                "final residuals".to_string()
            } else {
                "objective".to_string()
            };
            return Err(Fail::new("c11.fit", format!("fit of the parallel problem (pool of {n}) differs from the sequential fit: {what}")));
        }
        if fp.problem.is_par() {
            return Err(Fail::new("c11.fit_flavour", "fit() returned a parallel problem".to_string()));
        }
        out.class(format!("pool={n}"));
        out.class(format!("fit:{}", fs.report.term.tag()));
    }
    out.nontrivial = case.pools.iter().any(|n| *n >= 2) && case.base.spec.p >= 2;
    out.count("mirrored_states", states);
    out.class(case.base.flavour());
    for r in case.base.regime() {
        out.class(r);
    }
    out.class(format!("P={}", case.base.spec.p));
    Ok(out)
}

impl Property for C11 {
    type Case = C11Case;
    fn id(&self) -> &'static str {
        "C11"
    }
    fn regimes(&self) -> &'static str {
        crate::gen::REGIMES_CATALOGUE
    }
    fn rule(&self) -> String {
        "proptest: the same inputs go through new/mrhs and new_parallel/mrhs_parallel; the parallel problem runs inside a dedicated rayon pool (three generated sizes per case, 1..16); hand-written models burn a per-(parameter, call) amount of CPU in eval_partial_deriv, builder-made models a per-call amount in every closure, to perturb which worker finishes first. Differential oracle (bitwise): coefficients, residuals, Jacobian after every update of an LM run driven on the sequential problem and mirrored on the parallel one; whole fits (termination, evaluations, alpha_hat, C_hat, residuals, objective); into_sequential() preserves the state. A quarter of the cases add two caller updates that differ only in the sign of a zero coordinate. Non-trivial: a pool of >= 2 workers and P >= 2 (more than one Jacobian column to distribute)".into()
    }
    fn assumptions(&self) -> Vec<String> {
        vec!["rayon's schedule is sampled (pool sizes x jitter x repetitions), not enumerated".into()]
    }
    fn cases(&self, tier: Tier) -> usize {
        match tier {
            Tier::Quick => 30_000,
            Tier::Thorough => 1_200_000,
        }
    }
    fn strategy(&self, _tier: Tier) -> BoxedStrategy<C11Case> {
        let cfg = CaseCfg { max_s: 4, ..CaseCfg::default() };
        (
            case_strategy(cfg),
            lm_strategy(10),
            proptest::collection::vec(any::<u16>(), 3),
            any::<u16>(),
            proptest::collection::vec(proptest::collection::vec(any::<u16>(), 8), 0..=2),
        )
            .prop_map(|(base, lm, pls, burn, raws)| {
                let sizes = [1usize, 2, 2, 3, 4, 4, 5, 8, 8, 12, 16];
                let mut pools: Vec<usize> = pls.iter().map(|p| sizes[pick(*p, sizes.len())]).collect();
                pools.dedup();
                let mut updates = crate::gen::alpha_list(&base.spec, &raws);
                // 1 of 4 cases: two further updates that differ only in the sign of a zero coordinate
                // (numerically equal parameter vectors, different models)
                if burn % 4 == 1 {
                    let mut a = updates.last().cloned().unwrap_or_else(|| base.alpha.clone());
                    let k = pick(burn.rotate_left(5), a.len());
                    a[k] = if burn % 8 == 1 { 0.0 } else { -0.0 };
                    updates.push(a.clone());
                    a[k] = -a[k];
                    updates.push(a);
                }
                C11Case { base, lm, pools, burn: if burn % 3 == 0 { 0 } else { 20 * pick(burn, 40) }, updates }
            })
            .boxed()
    }
    fn check(&self, case: &C11Case) -> Check {
        if case.base.f32 {
            run::<f32>(case)
        } else {
            run::<f64>(case)
        }
    }
}

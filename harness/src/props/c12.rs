//! C12 — fit statistics satisfy their defining identities; under-determined fits give Err.
use crate::adapt::Prob;
use crate::engine::{run_checked_profile, Check, Fail, Outcome, Property, Tier};
use crate::gen::{family_strategy, FamCase, FamCfg};
use crate::models::Ctl;
use crate::Sc;
use levenberg_marquardt::LevenbergMarquardt;
use proptest::prelude::*;
use serde::{Deserialize, Serialize};
use serde_json::Value;
use std::collections::BTreeMap;
use std::sync::atomic::Ordering::SeqCst;

pub struct C12;

#[derive(Clone, Debug, Serialize, Deserialize)]
pub struct C12Case {
    pub fam: FamCase,
    /// inject model failures at every call index of the statistics phase (hand-written models)
    pub stats_faults: bool,
    /// optimizer settings (None = the default configuration); a quarter of the cases use generated
    /// ones, including tolerances of zero and patience of a few evaluations, so that failed fits of
    /// every kind reach fit_with_statistics
    #[serde(default)]
    pub lm: Option<super::drive::LmCfg>,
}

fn ulp_close<T: Sc>(a: f64, b: f64, ulps: f64) -> bool {
    a == b || (a - b).abs() <= ulps * T::unit() * a.abs().max(b.abs()) + 4.0 * T::min_positive_value().f()
}

fn run<T: Sc>(case: &C12Case) -> Check {
    let mut out = Outcome::default();
    let fam = &case.fam;
    let mut pc = fam.to_problem_case();
    pc.mrhs = false;
    let (n, m, p) = (fam.n(), fam.spec.m(), fam.spec.p);
    let dof = n as i64 - (m + p) as i64;
    let solver = match &case.lm {
        Some(l) => l.resolved::<T>().solver::<T>(),
        None => LevenbergMarquardt::<T>::new(),
    };

    // plain fit first (its verdict decides what fit_with_statistics may return)
    let ctl_fit = Ctl::new();
    let fit_only = pc.build_at::<T>(None, Some(ctl_fit.clone())).map_err(|e| Fail::new("build", e))?.fit(&solver);
    // the harness' adapter calls best_fit() once after the fit (one model evaluation)
    let calls_fit = ctl_fit.total().saturating_sub(usize::from(fit_only.best_fit.is_some()));

    let ctl = Ctl::new();
    let prob = pc.build_at::<T>(None, Some(ctl.clone())).map_err(|e| Fail::new("build", e))?;
    let fo = prob.fit_stats(&solver);
    let calls_total = ctl.total().saturating_sub(usize::from(fo.best_fit.is_some()));

    if fo.report.term != fit_only.report.term {
        return Err(Fail::new("c12.termination", format!("fit_with_statistics terminates with {:?}, fit with {:?} on identical inputs", fo.report.term, fit_only.report.term)));
    }
    // "the fit failed" is decided by the harness' own list of successful termination reasons
    if (!fit_only.ok || !fo.report.term.counts_as_success()) && fo.ok {
        return Err(Fail::new("c12.ok_after_failed_fit", format!("the fit failed ({:?}) but fit_with_statistics returned Ok", fo.report.term)));
    }
    if dof <= 0 && fo.ok {
        return Err(Fail::new("c12.ok_underdetermined", format!("fit_with_statistics returned Ok for N = {n}, M = {m}, P = {p} (N <= M + P)")));
    }
    if fo.ok {
        let st = fo.stats.as_ref().ok_or_else(|| Fail::new("harness", "Ok without statistics".to_string()))?;
        if dof <= 0 {
            unreachable!();
        }
        // weighted residuals of the statistics = final residuals of the fit
        let r = fo.problem.residuals().ok_or_else(|| Fail::new("c12.no_residuals", "Ok without residuals".to_string()))?;
        let wr = st.wres();
        if wr.len() != r.len() || r.len() != n {
            return Err(Fail::new("c12.wres_len", format!("weighted residuals have {} entries, residuals {}, N = {n}", wr.len(), r.len())));
        }
        // componentwise rounding bound: u (|W y|_i + |w_i| sum_j |Phi_ij| |c_j|) — the two sides
        // associate the products differently ((W Phi) c vs W (Phi c))
        let wdata = fo.problem.wdata();
        let phi = fo.problem.phi().map_err(|e| Fail::new("c12.model", e))?;
        let cf = fo.coeffs.as_ref().ok_or_else(|| Fail::new("c12.no_coefficients", "Ok without coefficients".to_string()))?;
        let wv: Vec<f64> = fo.problem.weights_vec().map(|w| w.iter().map(|v| v.f().abs()).collect()).unwrap_or_else(|| vec![1.0; n]);
        for i in 0..n {
            let mut acc = 0.0;
            for j in 0..m {
                acc += phi[(i, j)].f().abs() * cf[(j, 0)].f().abs();
            }
            let bound = 64.0 * (m as f64 + 4.0) * T::unit() * (wdata[(i, 0)].f().abs() + wv[i] * acc) + 8.0 * T::min_positive_value().f();
            if !((wr[i].f() - r[i].f()).abs() <= bound) {
                return Err(Fail::new("c12.wres_value", format!("weighted_residuals[{i}] = {:e}, final residual of the fit = {:e} (bound {bound:e})", wr[i].f(), r[i].f())));
            }
        }
        // reduced chi2 = |r_w|^2 / (N - M - P), rse = sqrt of it
        let ssq: f64 = wr.iter().map(|v| v.f() * v.f()).sum();
        let want = ssq / dof as f64;
        let chi2 = st.chi2().f();
        if !ulp_close::<T>(chi2, want, 4.0 * n as f64) {
            return Err(Fail::new("c12.reduced_chi2", format!("reduced chi2 = {chi2:e}, but |weighted residuals|^2 / (N-M-P) = {ssq:e} / {dof} = {want:e}")));
        }
        let rse = st.rse().f();
        if !ulp_close::<T>(rse, chi2.sqrt(), 4.0) {
            return Err(Fail::new("c12.regression_standard_error", format!("regression standard error {rse:e} is not the square root of the reduced chi2 {chi2:e}")));
        }
        out.class("ok");
    } else {
        out.class(if !fit_only.ok { "err:fit-failed" } else if dof <= 0 { "err:underdetermined" } else { "err:statistics-failed" });
    }

    // statistics-phase faults: every model call made after the fit proper
    let mut injected = 0u64;
    if case.stats_faults && fam.hand && fit_only.ok && fo.ok && calls_total > calls_fit {
        for k in calls_fit..calls_total {
            for persistent in [false, true] {
                let ctl = Ctl::new();
                ctl.arm(k, persistent, false);
                let prob = pc.build_at::<T>(None, Some(ctl.clone())).map_err(|e| Fail::new("build", e))?;
                let f2 = prob.fit_stats(&solver);
                ctl.disarm();
                injected += 1;
                if ctl.fired.load(SeqCst) == 0 {
                    return Err(Fail::new("harness", format!("statistics-phase fault at call {k} did not fire")));
                }
                if f2.ok {
                    return Err(Fail::new("c12.ok_despite_model_error", format!("the model failed at call {k} (statistics phase, calls {calls_fit}..{calls_total}), but fit_with_statistics returned Ok")));
                }
                if f2.report.term != fit_only.report.term {
                    return Err(Fail::new("c12.fault_changes_fit", format!("a statistics-phase model error changed the reported termination to {:?}", f2.report.term)));
                }
            }
        }
        out.class("statistics-phase-faults");
    }
    out.count("statistics_phase_faults_injected", injected);
    out.nontrivial = fit_only.ok;
    out.class(match dof {
        d if d < 0 => "N-(M+P)<0",
        0 => "N-(M+P)=0",
        1 => "N-(M+P)=1",
        _ => "N-(M+P)>1",
    });
    out.class(if fam.f32 { "f32" } else { "f64" });
    out.class(if fam.w.is_some() { "weighted" } else { "unweighted" });
    if case.lm.is_some() {
        out.class(format!("generated-optimizer-settings:{}", fo.report.term.tag()));
    }
    for r in fam.regime() {
        out.class(r);
    }
    out.class(format!("profile:{}", if cfg!(debug_assertions) { "overflow-checked" } else { "release" }));
    let _: Option<&dyn Prob<T>> = None;
    Ok(out)
}

impl Property for C12 {
    type Case = C12Case;
    fn id(&self) -> &'static str {
        "C12"
    }
    fn regimes(&self) -> &'static str {
        crate::gen::REGIMES_FAMILY
    }
    fn rule(&self) -> String {
        "proptest: single right-hand-side instances of the model families (incl. the shared-parameter family) with N chosen so that N-(M+P) covers <0, 0, 1 and >1 (small N over-sampled), noise 1e-4..1e-1, weights, f32/f64, builder-made and hand-written; executed in the release build and again in the overflow-checked build of the harness (evidence key checked_profile). Oracle: fit_with_statistics Ok => N > M+P, weighted residuals = final residuals of the fit, reduced chi2 = |r_w|²/(N-M-P), regression standard error = sqrt(reduced chi2); N <= M+P or a failed fit => Err with the same termination as fit(); every model call of the statistics phase (identified by a dry run) made to fail, transient and persistent => Err; never a panic. A quarter of the cases use generated optimizer settings (tolerances 0..1e-1, patience 1..40), and 'the fit failed' is decided by the harness' own list of successful termination reasons; nu up to 1200. Non-trivial: the fit itself succeeded (the statistics stage was reached)".into()
    }
    fn cases(&self, tier: Tier) -> usize {
        match tier {
            Tier::Quick => 30_000,
            Tier::Thorough => 2_500_000,
        }
    }
    fn strategy(&self, _tier: Tier) -> BoxedStrategy<C12Case> {
        let cfg = FamCfg { max_s: 1, min_n: 4, max_n: 40, noise_lo: 1e-4, noise_hi: 1e-1, noiseless_16: 2, start_rel: 0.03, allow_f32: true, weights: true, calibrated_weights: false, extra_families: true, wide_weights: true, max_decays: 3, units: true, long_data: true };
        (family_strategy(cfg), any::<u16>(), any::<u16>(), super::drive::lm_strategy(40), any::<u16>())
            .prop_map(|(mut fam, nsel, fl, lm, lmsel)| {
                // choose N relative to M+P: small differences over-sampled
                let mp = fam.spec.m() + fam.spec.p;
                let deltas: [i64; 13] = [-3, -2, -1, -1, 0, 0, 1, 1, 2, 3, 8, 25, 1200];
                let n = (mp as i64 + deltas[crate::engine::pick(nsel, 13)]).max(1) as usize;
                let xmax = fam.x.last().copied().unwrap_or(1.0);
                let quad = fam.family == 1;
                fam.x = (0..n).map(|i| if n == 1 { 0.3 * xmax } else { let t = i as f64 / (n - 1) as f64; xmax * if quad { t * t } else { t } }).collect();
                if !fam.sigma.is_empty() {
                    fam.sigma = vec![fam.sigma[0]; n];
                }
                if let Some(w) = &mut fam.w {
                    let w0 = w.clone();
                    *w = (0..n).map(|i| w0[i % w0.len()]).collect();
                }
                fam.mrhs = false;
                fam.c_true.truncate(1);
                C12Case { fam, stats_faults: fl % 4 == 0, lm: if lmsel % 4 == 0 { Some(lm) } else { None } }
            })
            .boxed()
    }
    fn pool_of(&self, case: &Self::Case) -> Option<usize> {
        case.fam.pool_size()
    }
    fn check(&self, case: &C12Case) -> Check {
        if case.fam.f32 {
            run::<f32>(case)
        } else {
            run::<f64>(case)
        }
    }
    fn epilogue(&self, tier: Tier, seed: u64, _counters: &BTreeMap<String, u64>, extra: &mut BTreeMap<String, Value>) -> Result<(), (Fail, Value)> {
        run_checked_profile("C12", tier, seed, extra)
    }
}

//! C13 — covariance and correlation are those of the full parameter vector (c, α).
use super::oracles::{stats_h, FORWARD_GATE};
use crate::adapt::FitOut;
use crate::engine::{Check, Fail, Outcome, Property, Tier};
use crate::gen::{family_strategy, FamCase, FamCfg};
use crate::oracle::linalg::{inv_gram_from_svd, svd, Mat};
use crate::sc::same_bits;
use crate::Sc;
use levenberg_marquardt::LevenbergMarquardt;
use proptest::prelude::*;

pub struct C13;

pub fn stats_cfg() -> FamCfg {
    FamCfg { max_s: 1, min_n: 8, max_n: 60, noise_lo: 1e-3, noise_hi: 1e-1, noiseless_16: 0, start_rel: 0.03, allow_f32: true, weights: true, calibrated_weights: false, extra_families: true, wide_weights: true, max_decays: 3, units: true, long_data: true }
}

/// fit a single-rhs family instance with statistics
pub fn fit_with_stats<T: Sc>(fam: &FamCase) -> Result<FitOut<T>, Fail> {
    let mut pc = fam.to_problem_case();
    pc.mrhs = false;
    let prob = pc.build::<T>().map_err(|e| Fail::new("build", e))?;
    Ok(prob.fit_stats(&LevenbergMarquardt::<T>::new()))
}

fn run<T: Sc>(fam: &FamCase) -> Check {
    let mut out = Outcome::default();
    let fo = fit_with_stats::<T>(fam)?;
    let (m, p) = (fam.spec.m(), fam.spec.p);
    out.class(format!("(M,P)=({m},{p})"));
    out.class(if fam.f32 { "f32" } else { "f64" });
    out.class(if fam.w.is_some() { "weighted" } else { "unweighted" });
    for r in fam.regime() {
        out.class(r);
    }
    let Some(st) = fo.stats.as_ref() else {
        out.class("no-statistics");
        return Ok(out);
    };
    let q = m + p;
    let cov = st.cov();
    if cov.nrows() != q || cov.ncols() != q {
        return Err(Fail::new("c13.shape", format!("covariance matrix is {}x{}, expected {q}x{q} (M + P)", cov.nrows(), cov.ncols())));
    }
    // accessors return exactly the diagonal segments: linear first, then nonlinear
    let (lv, nv) = (st.lin_var(), st.nonlin_var());
    if lv.len() != m || nv.len() != p {
        return Err(Fail::new("c13.variance_lengths", format!("variance accessors return {} linear and {} nonlinear entries, expected {m} and {p}", lv.len(), nv.len())));
    }
    for i in 0..m {
        if !same_bits(lv[i], cov[(i, i)]) {
            return Err(Fail::new("c13.linear_variance", format!("linear_coefficients_variance()[{i}] = {:?} is not covariance[{i},{i}] = {:?}", lv[i], cov[(i, i)])));
        }
    }
    for k in 0..p {
        if !same_bits(nv[k], cov[(m + k, m + k)]) {
            return Err(Fail::new("c13.nonlinear_variance", format!("nonlinear_parameters_variance()[{k}] = {:?} is not covariance[{},{}] = {:?}", nv[k], m + k, m + k, cov[(m + k, m + k)])));
        }
    }
    // correlation = covariance normalised by sqrt(c_ii c_jj)
    let corr = st.corr();
    // the deprecated accessor must report the same matrix
    let corr_old = st.corr_deprecated();
    if corr_old.shape() != corr.shape() || corr_old.iter().zip(corr.iter()).any(|(a, b)| !same_bits(*a, *b)) {
        return Err(Fail::new("c13.deprecated_accessor", "correlation_matrix() (deprecated) and calculate_correlation_matrix() differ".to_string()));
    }
    let covf = Mat::from_na(&cov);
    let corrf = Mat::from_na(&corr);
    if covf.all_finite() && (0..q).all(|i| covf.at(i, i) > 0.0) {
        let (lo, hi) = (T::min_positive_value().f() * 1e4, T::huge() / 1e4);
        let representable = (0..q).all(|i| (0..q).all(|j| { let pr = covf.at(i, i) * covf.at(j, j); pr > lo && pr < hi }));
        if !representable {
            out.skip("c13.correlation:variance-products-outside-the-range-of-the-scalar-type");
        }
        for i in 0..q {
            if !representable {
                break;
            }
            for j in 0..q {
                let want = covf.at(i, j) / (covf.at(i, i) * covf.at(j, j)).sqrt();
                let got = corrf.at(i, j);
                if !((got - want).abs() <= 16.0 * T::unit() * want.abs().max(1.0)) {
                    return Err(Fail::new("c13.correlation", format!("correlation[{i},{j}] = {got:e}, covariance normalised by sqrt(c_ii c_jj) = {want:e}")));
                }
            }
            if !((corrf.at(i, i) - 1.0).abs() <= 8.0 * T::unit()) {
                return Err(Fail::new("c13.correlation_diagonal", format!("correlation[{i},{i}] = {:e} is not 1", corrf.at(i, i))));
            }
        }
    }
    // the oracle's covariance sigma^2 (H^T H)^-1
    let Some(c) = fo.coeffs.as_ref() else { return Err(Fail::new("c13.no_coefficients", "statistics without coefficients".to_string())) };
    let h = stats_h(fo.problem.as_ref(), &Mat::from_na(c), true).map_err(|e| Fail::new("c13.model", e))?;
    if !h.all_finite() {
        out.skip("c13.covariance:nonfinite-H");
        return Ok(out);
    }
    // column-equilibrated H: the inverse of the Gram matrix and its rounding errors scale with the
    // columns (entry (i,j) with 1/(|h_i||h_j|)), so the relevant condition number is that of H with
    // unit columns (van der Sluis) — a model whose parameters carry other units (x in nanoseconds)
    // has a huge kappa(H) but is as well determined as in natural units
    let q_ = h.c;
    let dn: Vec<f64> = (0..q_).map(|j| crate::oracle::linalg::norm2(h.col(j))).collect();
    if dn.iter().any(|d| !(*d > 0.0)) {
        out.skip("c13.covariance:zero-column-in-H");
        return Ok(out);
    }
    let heq = Mat::from_fn(h.r, h.c, |i, j| h.at(i, j) / dn[j]);
    let sv = svd(&heq);
    let kappa = sv.smax() / sv.smin().max(f64::MIN_POSITIVE);
    let inv_eq = inv_gram_from_svd(&sv);
    let inv_o = Mat::from_fn(q_, q_, |i, j| inv_eq.at(i, j) / (dn[i] * dn[j]));
    // Tolerance, relative to the natural scale sqrt(C_ii C_jj) of each entry:
    //  * K u kappa_eq^2 — inversion of the (equilibrated) Gram matrix;
    //  * 64 (M+P) u kappa(H) — what a norm-wise stable decomposition of the unscaled H (an SVD with
    //    absolute accuracy u sigma_max) may lose on the small-scale directions;
    //  * calibration by a reference pipeline (harness code: Gram matrix in the scalar type under
    //    test, LU with partial pivoting, inverse): elimination with partial pivoting is not scale
    //    invariant, and on badly scaled H (seen: a fit that ended at tau = -0.65 with a basis
    //    column of norm 1e15) it is off by 1e-2 where kappa_eq is only 230. The tolerance widens by
    //    what that algorithm class delivers on this very matrix, as for the SVD in C01-C03.
    let kappa_h = {
        let s = svd(&h);
        s.smax() / s.smin().max(f64::MIN_POSITIVE)
    };
    let ref_dev = {
        let ht = nalgebra::DMatrix::<T>::from_fn(h.r, h.c, |i, j| T::of(h.at(i, j)));
        match (ht.transpose() * &ht).lu().try_inverse() {
            Some(gi) => {
                let mut worst = 0.0f64;
                for i in 0..q_ {
                    for j in 0..q_ {
                        let nat = (inv_o.at(i, i) * inv_o.at(j, j)).sqrt();
                        let d = (gi[(i, j)].f() - inv_o.at(i, j)).abs() / nat.max(f64::MIN_POSITIVE);
                        worst = if d.is_nan() { f64::INFINITY } else { worst.max(d) };
                    }
                }
                worst
            }
            None => f64::INFINITY,
        }
    };
    let tol_formula = super::oracles::kfactor(h.r, h.c) * T::unit() * kappa * kappa + 64.0 * q_ as f64 * T::unit() * kappa_h;
    let tol = tol_formula.max(4.0 * ref_dev);
    out.nontrivial = false;
    if !(tol <= FORWARD_GATE) {
        out.skip(if tol_formula <= FORWARD_GATE { "c13.covariance:reference-pipeline-inaccurate-on-this-matrix" } else { "c13.covariance:kappa(H)-gate" });
        return Ok(out);
    }
    let sigma2 = st.chi2().f();
    let cov_o = inv_o.scale(sigma2);
    let scale = cov_o.fro();
    let mut worst = 0.0f64;
    for i in 0..q {
        for j in 0..q {
            let d = (covf.at(i, j) - cov_o.at(i, j)).abs();
            // entrywise against the natural scale sqrt(C_ii C_jj) of the oracle
            let nat = (cov_o.at(i, i) * cov_o.at(j, j)).sqrt();
            worst = worst.max(d / nat.max(f64::MIN_POSITIVE));
            if !(d <= tol * nat.max(1e-300)) {
                return Err(Fail::new(
                    "c13.covariance",
                    format!("covariance[{i},{j}] = {:e}, sigma^2 (H^T H)^-1 [{i},{j}] = {:e} (tolerance {:e} relative to sqrt(C_ii C_jj), kappa of the column-equilibrated H = {kappa:e}); order must be linear coefficients first, then nonlinear parameters", covf.at(i, j), cov_o.at(i, j), tol),
                ));
            }
            // symmetry
            let asym = (covf.at(i, j) - covf.at(j, i)).abs();
            if !(asym <= tol * nat.max(1e-300)) {
                return Err(Fail::new("c13.symmetry", format!("covariance[{i},{j}] and [{j},{i}] differ by {asym:e}")));
            }
        }
        if !(covf.at(i, i) >= -tol * cov_o.at(i, i).abs()) {
            return Err(Fail::new("c13.negative_variance", format!("covariance[{i},{i}] = {:e} is negative", covf.at(i, i))));
        }
    }
    for i in 0..q {
        for j in 0..q {
            let pr = covf.at(i, i) * covf.at(j, j);
            if !(pr > T::min_positive_value().f() * 1e4 && pr < T::huge() / 1e4) {
                continue;
            }
            if !(corrf.at(i, j).abs() <= 1.0 + 4.0 * tol) {
                return Err(Fail::new("c13.correlation_range", format!("correlation[{i},{j}] = {:e} is outside [-1, 1]", corrf.at(i, j))));
            }
        }
    }
    let _ = scale;
    out.max("covariance_deviation_over_tolerance", worst / tol);
    out.nontrivial = !matches!((m, p), (3, 2) | (2, 3)) || fam.spec.has_shared_param();
    if fam.spec.has_shared_param() {
        out.class("shared-parameter");
    }
    out.class("covariance:compared");
    Ok(out)
}

impl Property for C13 {
    type Case = FamCase;
    fn id(&self) -> &'static str {
        "C13"
    }
    fn regimes(&self) -> &'static str {
        crate::gen::REGIMES_FAMILY
    }
    fn rule(&self) -> String {
        "proptest: successful single right-hand-side fits of the model families (1..3 decays ± offset, Gaussian + decay + offset, decay + offset, and a family whose rate parameter is shared by two basis functions), N in 8..60, relative noise 1e-3..1e-1, weights none / positive, f32/f64, builder-made and hand-written. Oracle: H = W[Phi | D_k c_hat] from the model at (alpha_hat, c_hat) in f64, Cov_o = reduced_chi2 · V S^-2 V^T from the harness' Jacobi SVD of H; |Cov - Cov_o|_ij <= K u_T kappa(H)² sqrt(C_ii C_jj) (gated: K u_T kappa² <= 0.05), symmetry, non-negative diagonal; variance accessors bitwise equal to diag[0..M) and diag[M..M+P); correlation_ij = Cov_ij / sqrt(Cov_ii Cov_jj) (16 ulp), unit diagonal, |entries| <= 1. Non-trivial: gate passed and (M,P) not in {(3,2),(2,3)} (the suite's splits) or a shared parameter".into()
    }
    fn cases(&self, tier: Tier) -> usize {
        match tier {
            Tier::Quick => 80_000,
            Tier::Thorough => 8_000_000,
        }
    }
    fn strategy(&self, _tier: Tier) -> BoxedStrategy<FamCase> {
        family_strategy(stats_cfg())
            .prop_map(|mut f| {
                f.mrhs = false;
                f.c_true.truncate(1);
                f
            })
            .boxed()
    }
    fn pool_of(&self, case: &Self::Case) -> Option<usize> {
        case.pool_size()
    }
    fn check(&self, case: &FamCase) -> Check {
        if case.f32 {
            run::<f32>(case)
        } else {
            run::<f64>(case)
        }
    }
}

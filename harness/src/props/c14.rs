//! C14 — the confidence band radius is the two-sided Student-t band of the fitted curve.
use super::c13::{fit_with_stats, stats_cfg};
use super::oracles::{kfactor, stats_h};
use crate::engine::{catch, pick, Check, Fail, Outcome, Property, Tier};
use crate::fl;
use crate::gen::{family_strategy, FamCase};
use crate::oracle::linalg::Mat;
use crate::oracle::student::t_two_sided;
use crate::Sc;
use proptest::prelude::*;
use serde::{Deserialize, Serialize};

pub struct C14;

#[derive(Clone, Debug, Serialize, Deserialize)]
pub struct C14Case {
    pub fam: FamCase,
    /// legal probabilities, strictly inside (0,1)
    #[serde(with = "fl::vec")]
    pub ps: Vec<f64>,
    /// illegal probabilities
    #[serde(with = "fl::vec")]
    pub bad: Vec<f64>,
}

/// relative accuracy class of the Student-t quantile routine of varpro's chosen dependency
/// (distrs, Hill 1970): measured against the harness oracle on nu = 1..1000: dense grids: worst 1.4e-5 relative for p in [1e-4, 1-1e-4], 8.2e-5 at p = 1e-6, absolute 1.05e-8 for p < 1e-6, 1.1e-4 relative at 1-p = 1e-12
pub const QUANTILE_REL_TOL: f64 = 1e-4;
pub const QUANTILE_ABS_TOL: f64 = 5e-8;
/// relative tolerance in the extreme upper tail (1 - p < 1e-8), where the routine is measured to be off by 1.1e-4
pub const QUANTILE_REL_TOL_TAIL: f64 = 5e-4;

fn run<T: Sc>(case: &C14Case) -> Check {
    let mut out = Outcome::default();
    let fam = &case.fam;
    let fo = fit_with_stats::<T>(fam)?;
    let (n, m, p) = (fam.n(), fam.spec.m(), fam.spec.p);
    let Some(st) = fo.stats.as_ref() else {
        out.class("no-statistics");
        return Ok(out);
    };
    let nu = (n - m - p) as f64;
    let q = m + p;
    let cov = Mat::from_na(&st.cov());
    if (cov.r, cov.c) != (q, q) {
        return Err(Fail::new("c14.covariance_shape", format!("the covariance matrix behind the band is {}x{}, expected {q}x{q}", cov.r, cov.c)));
    }
    let c = fo.coeffs.as_ref().ok_or_else(|| Fail::new("c14.no_coefficients", "statistics without coefficients".to_string()))?;
    // rows of the UNWEIGHTED model-function Jacobian at the optimum
    let j = stats_h(fo.problem.as_ref(), &Mat::from_na(c), false).map_err(|e| Fail::new("c14.model", e))?;
    let k = kfactor(n, q) * T::unit();
    // quadratic forms and their rounding bounds
    let mut forms = vec![0.0; n];
    let mut bounds = vec![0.0; n];
    // largest partial sum the evaluation of the form may meet in the scalar type under test
    let mut magnitude = vec![0.0; n];
    for i in 0..n {
        let (mut f, mut b) = (0.0, 0.0);
        for a in 0..q {
            for bb in 0..q {
                let t = j.at(i, a) * cov.at(a, bb) * j.at(i, bb);
                f += t;
                b += t.abs();
            }
        }
        forms[i] = f;
        bounds[i] = k * b;
        magnitude[i] = b;
    }
    let usable = cov.all_finite() && j.all_finite();
    let mut prev: Option<(f64, Vec<T>)> = None;
    let mut ps = case.ps.clone();
    ps.sort_by(|a, b| a.partial_cmp(b).unwrap());
    ps.dedup();
    let mut compared = 0u64;
    for &pp in &ps {
        let pt = T::of(pp);
        if !(pt.f() > 0.0 && pt.f() < 1.0) {
            continue; // rounds to 0 or 1 in the scalar type: not a legal probability any more
        }
        let r = match catch(|| st.band(pt)) {
            Ok(r) => r,
            Err(text) => return Err(Fail::new("c14.panic_for_legal_p", format!("confidence_band_radius({pp}) panicked: {text}"))),
        };
        if r.len() != n {
            return Err(Fail::new("c14.length", format!("confidence band has {} entries for {n} samples", r.len())));
        }
        if usable {
            let t_o = t_two_sided(pt.f(), nu);
            for i in 0..n {
                let ri = r[i].f();
                // intermediates beyond the range of the scalar type (seen in f32: nanosecond units,
                // nu = 2, zero weights — a covariance of 1e20+ whose products overflow f32 although
                // the form itself is moderate): no finite value can be demanded
                if !(magnitude[i] * (q * q) as f64 <= T::huge() / 16.0) {
                    out.skip("c14.value:intermediates-beyond-the-range-of-the-scalar-type");
                    continue;
                }
                if bounds[i] >= 0.5 * forms[i].abs() || forms[i] <= 0.0 {
                    out.skip("c14.value:sign-of-quadratic-form-not-determined");
                    continue;
                }
                // the quadratic form is accumulated in the scalar type under test: below
                // MIN_POSITIVE/u its products are subnormal or flush to zero (seen in f32: form
                // 1.2e-47 -> radius 0); nothing can be demanded of the value there
                if forms[i] < T::min_positive_value().f() / T::unit() {
                    out.skip("c14.value:quadratic-form-below-the-normal-range-of-the-scalar-type");
                    if !(ri.is_finite() && ri >= 0.0) {
                        return Err(Fail::new("c14.finite_nonnegative", format!("radius[{i}] = {ri:e} for p = {pp} (nu = {nu})")));
                    }
                    continue;
                }
                if !(ri.is_finite() && ri >= 0.0) {
                    return Err(Fail::new("c14.finite_nonnegative", format!("radius[{i}] = {ri:e} for p = {pp} (nu = {nu})")));
                }
                let want = t_o * forms[i].sqrt();
                // sqrt halves the relative error of the form; quantile tolerance of the dependency
                let qtol = if 1.0 - pt.f() < 1e-8 { QUANTILE_REL_TOL_TAIL } else { QUANTILE_REL_TOL };
                let rel = bounds[i] / forms[i] + qtol + 8.0 * T::unit();
                let abs = QUANTILE_ABS_TOL * forms[i].sqrt() + 4.0 * T::min_positive_value().f();
                if !((ri - want).abs() <= rel * want + abs) {
                    return Err(Fail::new(
                        "c14.value",
                        format!("radius[{i}] = {ri:e} for p = {pp}, nu = {nu}; expected t((1+p)/2; nu) · sqrt(j_i^T Cov j_i) = {t_o:e} · {:e} = {want:e} (relative tolerance {rel:e}); j_i is row {i} of the unweighted [Phi | D_k c]", forms[i].sqrt()),
                    ));
                }
                compared += 1;
            }
        }
        // non-decreasing in p
        if let Some((p0, r0)) = &prev {
            for i in 0..n {
                let (a, b) = (r0[i].f(), r[i].f());
                if a.is_finite() && b.is_finite() && !(a <= b * (1.0 + 4.0 * T::unit()) + 4.0 * T::min_positive_value().f()) {
                    return Err(Fail::new("c14.monotone", format!("radius[{i}] decreases from {a:e} at p = {p0} to {b:e} at p = {pp}")));
                }
            }
        }
        prev = Some((pp, r));
    }
    // illegal probabilities are rejected by a panic, as documented
    for &b in &case.bad {
        let bt = T::of(b);
        if bt.f() > 0.0 && bt.f() < 1.0 {
            continue;
        }
        if catch(|| st.band(bt)).is_ok() {
            return Err(Fail::new("c14.illegal_p_accepted", format!("confidence_band_radius({b}) returned instead of panicking")));
        }
    }
    out.nontrivial = nu <= 60.0 && compared > 0;
    out.count("radius_entries_compared", compared);
    out.class(if nu <= 3.0 { "nu<=3" } else if nu <= 10.0 { "nu<=10" } else if nu <= 60.0 { "nu<=60" } else { "nu>60" });
    if ps.iter().any(|p| *p < 0.01 || *p > 0.99) {
        out.class("p:tail");
    }
    out.class(if fam.f32 { "f32" } else { "f64" });
    out.class(if fam.w.is_some() { "weighted" } else { "unweighted" });
    for r in fam.regime() {
        out.class(r);
    }
    Ok(out)
}

impl Property for C14 {
    type Case = C14Case;
    fn id(&self) -> &'static str {
        "C14"
    }
    fn regimes(&self) -> &'static str {
        crate::gen::REGIMES_FAMILY
    }
    fn rule(&self) -> String {
        "proptest: successful single-rhs fits of the model families with nu = N-M-P in 1..60 (nu <= 10 over-sampled), weighted and unweighted, f32/f64; 8 probabilities per fit from (0.01,0.99) and from the tails down to 1e-9 and up to 1-1e-12; illegal p in {0, 1, negative, > 1, NaN, ±inf}. Oracle per sample i: radius_i = t((1+p)/2; nu) · sqrt(j_i^T Cov j_i) with the statistics' own covariance, j_i = row i of the unweighted [Phi | D_k c_hat] from the model, t from the harness' own Student-t (incomplete beta + bisection); tolerance = rounding bound of the quadratic form + 1e-4 relative (7x the measured worst case) for the quantile routine of the dependency; finite, >= 0, one entry per sample; non-decreasing in p; illegal p panics, legal p never does. 1 of 32 instances has nu = 4700 (more than 4096 samples), 1 of 16 nu = 1100. Non-trivial: nu <= 60 and at least one radius compared".into()
    }
    fn assumptions(&self) -> Vec<String> {
        vec!["the quantile tolerance 1e-4 is 7x the measured accuracy of distrs::StudentsT::ppf (worst 1.2e-5 in [1e-6, 1-1e-6]); formula mistakes are >= 1e-3".into()]
    }
    fn cases(&self, tier: Tier) -> usize {
        match tier {
            Tier::Quick => 80_000,
            Tier::Thorough => 4_000_000,
        }
    }
    fn strategy(&self, _tier: Tier) -> BoxedStrategy<C14Case> {
        (family_strategy(stats_cfg()), any::<u16>(), proptest::collection::vec((any::<u16>(), 0.0f64..1.0), 8), any::<u16>())
            .prop_map(|(mut fam, nsel, praw, bsel)| {
                fam.mrhs = false;
                fam.c_true.truncate(1);
                // nu = N - M - P: small values over-sampled
                let mp = fam.spec.m() + fam.spec.p;
                let nus = [1usize, 1, 2, 2, 3, 3, 4, 5, 6, 8, 10, 15, 25, 40, 60, 1100];
                // (1 of 32 instances: more than 4096 samples, not a multiple of 4096)
                let mut nu = nus[pick(nsel, nus.len())];
                if nu == 40 && nsel & 1 == 0 {
                    nu = 4700;
                }
                let n = mp + nu;
                let xmax = fam.x.last().copied().unwrap_or(1.0);
                let quad = fam.family == 1;
                fam.x = (0..n).map(|i| { let t = i as f64 / (n - 1) as f64; xmax * if quad { t * t } else { t } }).collect();
                if !fam.sigma.is_empty() {
                    fam.sigma = vec![fam.sigma[0]; n];
                }
                if let Some(w) = &mut fam.w {
                    let w0 = w.clone();
                    *w = (0..n).map(|i| w0[i % w0.len()]).collect();
                }
                let ps = praw
                    .into_iter()
                    .map(|(sel, u)| match pick(sel, 8) {
                        0 => 10f64.powf(-9.0 + 7.0 * u),          // lower tail
                        1 => 1.0 - 10f64.powf(-12.0 + 10.0 * u),  // upper tail
                        2 => [0.5, 0.683, 0.8, 0.9, 0.95, 0.99, 0.999][(u * 7.0) as usize % 7],
                        _ => 0.01 + 0.98 * u,
                    })
                    .collect();
                let bads = [0.0, 1.0, -0.3, 1.5, f64::NAN, f64::INFINITY, f64::NEG_INFINITY, -1e-300];
                let bad = vec![bads[pick(bsel, 8)], bads[pick(bsel.rotate_left(5), 8)]];
                C14Case { fam, ps, bad }
            })
            .boxed()
    }
    fn pool_of(&self, case: &Self::Case) -> Option<usize> {
        case.fam.pool_size()
    }
    fn check(&self, case: &C14Case) -> Check {
        if case.fam.f32 {
            run::<f32>(case)
        } else {
            run::<f64>(case)
        }
    }
}

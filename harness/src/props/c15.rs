//! C15 — the model builder accepts exactly valid specifications; errors name a real defect.
use super::bprog::{interpret, kind_of, specify, valid_program, Call, Form, Kind, Program};
use crate::engine::{pick, Check, Fail, Outcome, Property, Tier};
use proptest::prelude::*;
use varpro::prelude::*;

pub struct C15;

const MONOTONE: [Kind; 8] = [
    Kind::DuplicateParameterNames,
    Kind::EmptyParameters,
    Kind::FunctionParameterNotInModel,
    Kind::InvalidDerivative,
    Kind::DuplicateDerivative,
    Kind::IncorrectParameterCount,
    Kind::CommaInParameterNameNotAllowed,
    Kind::IllegalCallToPartialDeriv,
];

fn check_one(prog: &Program, what: &str) -> Result<(Vec<Kind>, Option<Kind>), Fail> {
    let spec = specify(prog);
    match interpret::<f64>(prog, None) {
        Ok(model) => {
            if !spec.defects.is_empty() {
                return Err(Fail::new("c15.accepted_invalid", format!("{what}: build() returned a model although the call sequence has the defects {:?}", spec.defects)));
            }
            if model.parameter_count() != spec.parameters || model.base_function_count() != spec.functions {
                return Err(Fail::new(
                    "c15.counts",
                    format!("{what}: model has {} parameters / {} functions, the call sequence declares {} / {}", model.parameter_count(), model.base_function_count(), spec.parameters, spec.functions),
                ));
            }
            Ok((spec.defects, None))
        }
        Err(e) => {
            let k = kind_of(&e);
            if spec.defects.is_empty() {
                return Err(Fail::new("c15.rejected_valid", format!("{what}: a valid specification was rejected with {e:?}")));
            }
            if !spec.defects.contains(&k) {
                return Err(Fail::new("c15.wrong_error_kind", format!("{what}: build() failed with {e:?}, but the defects present in the call sequence are {:?}", spec.defects)));
            }
            Ok((spec.defects, Some(k)))
        }
    }
}

pub fn check_program(prog: &Program) -> Check {
    let mut out = Outcome::default();
    let (defects, kind) = check_one(prog, "program")?;
    // every prefix is a program of its own; a recorded (monotone) defect is sticky
    let mut sticky: Option<(usize, Kind)> = None;
    for len in 0..prog.calls.len() {
        let prefix = Program { model_names: prog.model_names.clone(), calls: prog.calls[..len].to_vec() };
        let (_, k) = check_one(&prefix, &format!("prefix of {len} calls"))?;
        if let Some(k) = k {
            if MONOTONE.contains(&k) && sticky.is_none() {
                sticky = Some((len, k));
            }
        }
    }
    if let (Some((len, k)), None) = (sticky, kind) {
        return Err(Fail::new("c15.not_sticky", format!("the prefix of {len} calls fails with {k:?}, but the complete program builds a model")));
    }
    out.nontrivial = defects.len() <= 1;
    out.class(format!("defects={}", defects.len().min(4)));
    for d in &defects {
        out.class(format!("{d:?}"));
    }
    if let Some(k) = kind {
        out.class(format!("reported:{k:?}"));
    }
    Ok(out)
}

/// names used by the mutations: valid pool names, the empty string, a name with a comma, a name not
/// in any model, and near misses of "a" (case, surrounding blank, prefix) that must count as different names
const MUT_NAMES: [&str; 12] = ["a", "b", "c", "", "a,b", "zz", "d", "e", "A", " a", "a ", "ab"];

fn mutate(prog: &mut Program, sel: u16, a: u16, b: u16) {
    let n = prog.calls.len();
    match pick(sel, 14) {
        0 if n > 0 => {
            prog.calls.remove(pick(a, n));
        }
        1 if n > 0 => {
            let i = pick(a, n);
            let c = prog.calls[i].clone();
            prog.calls.insert(pick(b, n + 1), c);
        }
        2 if n > 1 => {
            let (i, j) = (pick(a, n), pick(b, n));
            prog.calls.swap(i, j);
        }
        3 if n > 0 => {
            // retarget a name in a function list or a derivative
            let i = pick(a, n);
            match &mut prog.calls[i] {
                Call::Function { names, .. } if !names.is_empty() => {
                    let k = pick(b, names.len());
                    names[k] = MUT_NAMES[pick(b.rotate_left(5), MUT_NAMES.len())].to_string();
                }
                Call::Deriv { name, .. } => *name = MUT_NAMES[pick(b, MUT_NAMES.len())].to_string(),
                _ => {}
            }
        }
        4 if n > 0 => {
            // change an arity
            let i = pick(a, n);
            match &mut prog.calls[i] {
                Call::Function { form, .. } | Call::Deriv { form, .. } => {
                    if b % 2 == 0 && form.q.len() < 10 {
                        form.q.push(3);
                    } else if form.q.len() > 1 {
                        form.q.pop();
                    }
                }
                _ => {}
            }
        }
        5 if n > 0 => {
            // shorten or lengthen a function's name list
            let i = pick(a, n);
            if let Call::Function { names, .. } = &mut prog.calls[i] {
                if b % 2 == 0 {
                    names.pop();
                } else {
                    names.push(MUT_NAMES[pick(b, MUT_NAMES.len())].to_string());
                }
            }
        }
        6 => {
            // model names
            let m = &mut prog.model_names;
            match pick(a, 5) {
                0 => m.clear(),
                1 if !m.is_empty() => {
                    let d = m[0].clone();
                    m.push(d);
                }
                2 => m.push("x,y".into()),
                3 => m.push(MUT_NAMES[pick(b, MUT_NAMES.len())].to_string()),
                _ => {
                    m.pop();
                }
            }
        }
        7 if n > 0 => {
            let i = pick(a, n);
            if let Call::Init(v) = &mut prog.calls[i] {
                if b % 2 == 0 {
                    v.push(5);
                } else {
                    v.pop();
                }
            }
        }
        8 => prog.calls.insert(pick(a, n + 1), Call::Deriv { name: MUT_NAMES[pick(b, 3)].to_string(), form: Form { tag: 1, q: vec![1] } }),
        9 => prog.calls.insert(pick(a, n + 1), Call::Invariant { tag: 3 }),
        10 => prog.calls.insert(pick(a, n + 1), Call::Init(vec![1; 1 + pick(b, 3)])),
        11 => prog.calls.insert(pick(a, n + 1), Call::X(1 + pick(b, 3))),
        12 => {
            let names: Vec<String> = (0..1 + pick(b, 2)).map(|k| MUT_NAMES[pick(b.rotate_left(3 * k as u32 + 1), 5)].to_string()).collect();
            let q = vec![2; 1 + pick(b.rotate_left(7), 2)];
            prog.calls.insert(pick(a, n + 1), Call::Function { names, form: Form { tag: 9, q } });
        }
        _ => {}
    }
}

fn random_program(us: &[u16]) -> Program {
    let mut i = 0;
    let mut next = || {
        let v = us[i % us.len()];
        i += 1;
        v
    };
    let names = ["a", "b", "c", "", "a,b", "A", "a ", "ab"];
    let model: Vec<String> = (0..pick(next(), 4)).map(|_| names[pick(next(), 8)].to_string()).collect();
    let len = pick(next(), 15);
    let mut calls = vec![];
    for _ in 0..len {
        let c = match pick(next(), 8) {
            0 | 1 => {
                let l = pick(next(), 4);
                Call::Function { names: (0..l).map(|_| names[pick(next(), 8)].to_string()).collect(), form: Form { tag: 1, q: vec![1; 1 + pick(next(), 3)] } }
            }
            2..=4 => Call::Deriv { name: names[pick(next(), 8)].to_string(), form: Form { tag: 2, q: vec![1; 1 + pick(next(), 3)] } },
            5 => Call::Invariant { tag: 4 },
            6 => Call::X(1 + pick(next(), 3)),
            _ => Call::Init(vec![1; pick(next(), 4)]),
        };
        calls.push(c);
    }
    Program { model_names: model, calls }
}

/// bounded-exhaustive scopes (thorough tier; a reduced scope in the quick tier)
fn enumerate_scope(quick: bool) -> (String, Box<dyn Iterator<Item = Program> + Send>) {
    let f = |names: &[&str], arity: usize| Call::Function { names: names.iter().map(|s| s.to_string()).collect(), form: Form { tag: 1, q: vec![1; arity] } };
    let d = |name: &str, arity: usize| Call::Deriv { name: name.to_string(), form: Form { tag: 2, q: vec![1; arity] } };
    let mut alphabet: Vec<Call> = vec![];
    let lists: [&[&str]; 7] = [&["a"], &["b"], &["a", "b"], &["b", "a"], &["a", "a"], &["c"], &[]];
    for l in lists.iter() {
        for ar in 1..=2 {
            alphabet.push(f(l, ar));
        }
    }
    for nm in ["a", "b", "c"] {
        for ar in 1..=2 {
            alphabet.push(d(nm, ar));
        }
    }
    alphabet.push(Call::Invariant { tag: 3 });
    alphabet.push(Call::X(2));
    for l in 1..=3 {
        alphabet.push(Call::Init(vec![1; l]));
    }
    let models: Vec<Vec<String>> = vec![vec!["a".into()], vec!["a".into(), "b".into()], vec!["a".into(), "a".into()], vec![]];
    let max_len = if quick { 3 } else { 4 };
    let k = alphabet.len();
    let desc = format!(
        "every program new(L)·t1…tn with L in {{[a],[a,b],[a,a],[]}}, n <= {max_len}, over a {k}-token alphabet (function with 7 name lists x arity 1..2, partial_deriv with 3 names x arity 1..2, invariant_function, independent_variable, initial_parameters of length 1..3)"
    );
    let it = models.into_iter().flat_map(move |m| {
        let alphabet = alphabet.clone();
        (0..=max_len).flat_map(move |n| {
            let alphabet = alphabet.clone();
            let m = m.clone();
            let total = k.pow(n as u32);
            (0..total).map(move |mut code| {
                let mut calls = Vec::with_capacity(n);
                for _ in 0..n {
                    calls.push(alphabet[code % k].clone());
                    code /= k;
                }
                Program { model_names: m.clone(), calls }
            })
        })
    });
    (desc, Box::new(it))
}

impl Property for C15 {
    type Case = Program;
    fn id(&self) -> &'static str {
        "C15"
    }
    fn rule(&self) -> String {
        "builder call programs from three sources: (i) a generated valid program (1..10 parameters, arities 1..10) mutated 0..3 times (drop / duplicate / swap / retarget a call, change an arity, a name list, the model names, the initial-guess length, insert stray calls), (ii) uniformly random programs of length <= 14 over the names {a,b,c,\"\",\"a,b\",A,\"a \",ab}, (iii) bounded-exhaustive enumeration of all programs up to length 3 (quick) / 4 (thorough) over a 25-token alphabet and four model-name lists. Oracle: an independent declarative specification computes the set D of defects present in the call sequence; build() is Ok iff D is empty, on Err the error kind is in D, on Ok the model has the declared parameter/function counts; every prefix is checked the same way and a recorded (monotone) defect of a prefix must keep the whole program failing. Non-trivial: valid programs and programs with exactly one defect".into()
    }
    fn assumptions(&self) -> Vec<String> {
        vec!["'non-empty parameter names' is read as the *list* being non-empty (as documented at SeparableModelBuilder::new); the empty string is a legal name".into(), "D is computed leniently (a superset as soon as one defect is present); D = {} is exact".into()]
    }
    fn cases(&self, tier: Tier) -> usize {
        match tier {
            Tier::Quick => 600_000,
            Tier::Thorough => 4_000_000,
        }
    }
    fn strategy(&self, _tier: Tier) -> BoxedStrategy<Program> {
        (proptest::collection::vec(any::<u16>(), 120), any::<u16>(), proptest::collection::vec((any::<u16>(), any::<u16>(), any::<u16>()), 3), any::<u16>())
            .prop_map(|(us, src, muts, nm)| program_from_raw(&us, src, &muts, nm))
            .boxed()
    }
    fn enumerate(&self, tier: Tier) -> Option<(String, Box<dyn Iterator<Item = Program> + Send>)> {
        Some(enumerate_scope(tier == Tier::Quick))
    }
    /// the same search again, a fifth of the cases, in the overflow-checked build of the harness
    /// (debug assertions and overflow checks of the library on): "never a panic" is a claim about
    /// every build profile
    fn epilogue(&self, tier: Tier, seed: u64, _counters: &std::collections::BTreeMap<String, u64>, extra: &mut std::collections::BTreeMap<String, serde_json::Value>) -> Result<(), (Fail, serde_json::Value)> {
        crate::engine::run_checked_profile_n("C15", tier, seed, Some((self.cases(tier) / 5).max(50)), extra)
    }
    fn check(&self, case: &Program) -> Check {
        check_program(case)
    }
}

/// the pure construction behind the strategy (also used by the fuzz target)
pub fn program_from_raw(us: &[u16], src: u16, muts: &[(u16, u16, u16)], nm: u16) -> Program {
    {
        {
            {
                if pick(src, 4) == 0 {
                    random_program(us)
                } else {
                    // (1 of 512 source programs is large: 60..139 model parameters; every prefix of a program is built, so these are expensive)
                    let l = if us[2] % 512 == 7 { 60 + pick(us[1], 80) } else { 1 + pick(us[1], if us[2] % 4 == 0 { 10 } else { 3 }) };
                    let mut p = valid_program(us, l, 1 + pick(us[3], 3), 1 + pick(us[4], 10), 1 + pick(us[5], 3));
                    let n_mut = pick(nm, 4);
                    for (sel, a, b) in muts.iter().take(n_mut) {
                        mutate(&mut p, *sel, *a, *b);
                    }
                    p
                }
            }
        }
    }
}

//! C16 — built models route parameters by name and place derivatives by parameter index.
use super::bprog::{interpret, specify, valid_program, Call, Expected, Program};
use crate::engine::{pick, Check, Fail, Outcome, Property, Tier};
use crate::sc::same_bits;
use crate::Sc;
use nalgebra::DVector;
use proptest::prelude::*;
use serde::{Deserialize, Serialize};
use varpro::prelude::*;

pub struct C16;

#[derive(Clone, Debug, Serialize, Deserialize)]
pub struct C16Case {
    pub prog: Program,
    /// further parameter vectors applied with set_params
    pub alphas: Vec<Vec<i32>>,
    pub f32: bool,
}

pub fn check_matrix<T: Sc>(got: &nalgebra::DMatrix<T>, want: &[f64], n: usize, m: usize, what: &str) -> Result<(), Fail> {
    if got.nrows() != n || got.ncols() != m {
        return Err(Fail::new("c16.shape", format!("{what}: matrix is {}x{}, expected {n}x{m}", got.nrows(), got.ncols())));
    }
    for j in 0..m {
        for i in 0..n {
            let w = T::of(want[i + j * n]);
            if !same_bits(got[(i, j)], w) {
                return Err(Fail::new(
                    "c16.value",
                    format!("{what}: element [{i},{j}] is {:?}, expected exactly {:?} (column {j} = function {j} on its declared parameters)", got[(i, j)], w),
                ));
            }
        }
    }
    Ok(())
}

fn run<T: Sc>(case: &C16Case) -> Check {
    let mut out = Outcome::default();
    let spec = specify(&case.prog);
    if !spec.defects.is_empty() {
        return Err(Fail::new("harness", format!("generator produced an invalid program: {:?}", spec.defects)));
    }
    let mut model = match interpret::<T>(&case.prog, None) {
        Ok(m) => m,
        Err(e) => return Err(Fail::new("c16.rejected", format!("a valid specification was rejected: {e:?}"))),
    };
    let exp = Expected::of(&case.prog);
    if exp.n == 0 {
        out.class("N=0");
    }
    if case.prog.calls.iter().any(|c| matches!(c, super::bprog::Call::XFrom { .. })) {
        out.class("x-grid-overridden");
    }
    if model.parameters() != case.prog.model_names.as_slice() {
        return Err(Fail::new("c16.parameters", format!("parameters() = {:?}, declared {:?}", model.parameters(), case.prog.model_names)));
    }
    if model.parameter_count() != exp.p || model.base_function_count() != exp.m || model.output_len() != exp.n {
        return Err(Fail::new(
            "c16.counts",
            format!("counts (P,M,N) = ({},{},{}), expected ({},{},{})", model.parameter_count(), model.base_function_count(), model.output_len(), exp.p, exp.m, exp.n),
        ));
    }
    let init: Vec<i32> = case
        .prog
        .calls
        .iter()
        .rev()
        .find_map(|c| if let Call::Init(v) = c { Some(v.clone()) } else { None })
        .unwrap();
    let mut vectors: Vec<Vec<i32>> = vec![init];
    vectors.extend(case.alphas.iter().cloned());
    for (step, v) in vectors.iter().enumerate() {
        let vt: Vec<T> = v.iter().map(|x| T::of(*x as f64)).collect();
        if step > 0 {
            if let Err(e) = model.set_params(DVector::from_vec(vt.clone())) {
                return Err(Fail::new("c16.set_params", format!("a parameter vector of the right length was rejected: {e:?}")));
            }
        }
        let got = model.params();
        if got.len() != vt.len() || got.iter().zip(&vt).any(|(a, b)| !same_bits(*a, *b)) {
            return Err(Fail::new("c16.params_roundtrip", format!("params() = {:?} after setting {:?}", got.as_slice(), v)));
        }
        let vf: Vec<f64> = v.iter().map(|x| *x as f64).collect();
        let e = model.eval().map_err(|e| Fail::new("c16.eval_error", format!("{e:?}")))?;
        check_matrix(&e, &exp.eval(&vf), exp.n, exp.m, "eval()")?;
        for k in 0..exp.p {
            let d = model.eval_partial_deriv(k).map_err(|e| Fail::new("c16.deriv_error", format!("{e:?}")))?;
            check_matrix(&d, &exp.deriv(k, &vf), exp.n, exp.m, &format!("eval_partial_deriv({k})"))?;
        }
    }
    // non-trivial: a function of arity >= 2 whose parameter order differs from model order
    let mut max_arity = 0;
    for c in &case.prog.calls {
        if let Call::Function { names, .. } = c {
            max_arity = max_arity.max(names.len());
            if names.len() >= 2 {
                let idx: Vec<usize> = names.iter().map(|n| case.prog.model_names.iter().position(|m| m == n).unwrap()).collect();
                if idx.windows(2).any(|w| w[0] > w[1]) {
                    out.nontrivial = true;
                }
            }
        }
    }
    out.class(format!("max-arity={max_arity}"));
    out.class(if exp.p <= 10 { format!("P={}", exp.p) } else if exp.p <= 64 { "P=11..64".to_string() } else if exp.p <= 128 { "P=65..128".to_string() } else { "P>128".to_string() });
    out.class(if case.f32 { "f32" } else { "f64" });
    if case.prog.calls.iter().any(|c| matches!(c, Call::Invariant { .. })) {
        out.class("with-invariant");
    }
    Ok(out)
}

impl Property for C16 {
    type Case = C16Case;
    fn id(&self) -> &'static str {
        "C16"
    }
    fn rule(&self) -> String {
        "proptest: model parameter lists of length 1..10 (1 of 64: 60..139; random arrangement of names), functions of arity 1..10 over random ordered subsets, derivative calls in random order, invariant functions and x / initial_parameters at random positions, f32/f64, integer-valued alpha. Function j evaluates x_i + tag_j + sum_k q_jk a_k and its derivative w.r.t. a named parameter tag' + x_i + sum q'_k a_k with distinct small integer coefficients (position sensitive, exactly representable). Oracle: eval() and eval_partial_deriv(k) are bitwise equal to matrices computed directly from the generated description; zero columns exactly zero; params() returns what was set, in model order; parameters() is the declared list. Non-trivial: some function of arity >= 2 whose parameter order differs from the model order".into()
    }
    fn cases(&self, tier: Tier) -> usize {
        match tier {
            Tier::Quick => 500_000,
            Tier::Thorough => 20_000_000,
        }
    }
    fn strategy(&self, _tier: Tier) -> BoxedStrategy<C16Case> {
        (proptest::collection::vec(any::<u16>(), 160), any::<u16>(), any::<u16>(), any::<u16>(), proptest::collection::vec(proptest::collection::vec(0i32..40, 10), 0..3), any::<bool>())
            .prop_map(|(us, l, mf, ma, alphas, f32)| {
                // 1 of 64 models is large: 60..139 parameters (more than 64, more than 128)
                let l = if l % 64 == 1 { 60 + pick(l.rotate_left(5), 80) } else if l % 4 == 0 { 10 } else { 1 + pick(l, 10) };
                let max_arity = if ma % 4 == 0 { 10 } else { 1 + pick(ma, 10) };
                // (1 of 64 models has an empty independent variable: 0 x M matrices)
                let n = if us[0] % 64 == 5 { 0 } else { 1 + pick(us[0], 6) };
                let prog = valid_program(&us, l, 1 + pick(mf, 4), max_arity, n);
                let alphas = alphas.into_iter().map(|v| (0..l).map(|i| v[i % v.len()] + 41 * (i as i32 % 2) + (i / 10) as i32).collect()).collect();
                C16Case { prog, alphas, f32 }
            })
            .boxed()
    }
    /// the same search again, a fifth of the cases, in the overflow-checked build of the harness
    /// (debug assertions and overflow checks of the library on): "never a panic" is a claim about
    /// every build profile
    fn epilogue(&self, tier: Tier, seed: u64, _counters: &std::collections::BTreeMap<String, u64>, extra: &mut std::collections::BTreeMap<String, serde_json::Value>) -> Result<(), (Fail, serde_json::Value)> {
        crate::engine::run_checked_profile_n("C16", tier, seed, Some((self.cases(tier) / 5).max(50)), extra)
    }
    fn check(&self, case: &C16Case) -> Check {
        if case.f32 {
            run::<f32>(case)
        } else {
            run::<f64>(case)
        }
    }
}

//! C17 — builder-made models report misuse as errors and keep their state intact.
use super::bprog::{interpret, valid_program, Call, Expected, Hooks, Program, NOT_BROKEN};
use super::c16::check_matrix;
use crate::engine::{pick, Check, Fail, Outcome, Property, Tier};
use crate::sc::same_bits;
use crate::Sc;
use nalgebra::DVector;
use proptest::prelude::*;
use serde::{Deserialize, Serialize};
use std::sync::atomic::Ordering::SeqCst;
use varpro::model::errors::ModelError;
use varpro::prelude::*;

pub struct C17;

#[derive(Clone, Debug, Serialize, Deserialize)]
pub enum MOp {
    SetRight(Vec<i32>),
    SetWrong(usize),
    Eval,
    Deriv(usize),
    /// derivative index >= P
    DerivOut(usize),
    /// from now on the closure of call `call` returns a vector of length `len` (!= N)
    Break { call: usize, len: usize },
    Heal { call: usize },
}

#[derive(Clone, Debug, Serialize, Deserialize)]
pub struct C17Case {
    pub prog: Program,
    pub ops: Vec<MOp>,
    pub f32: bool,
}

fn run<T: Sc>(case: &C17Case) -> Check {
    let mut out = Outcome::default();
    let hooks = Hooks::new(case.prog.calls.len());
    let mut model = interpret::<T>(&case.prog, Some(hooks.clone())).map_err(|e| Fail::new("c17.rejected", format!("valid specification rejected: {e:?}")))?;
    let exp = Expected::of(&case.prog);
    if exp.n == 0 {
        out.class("N=0");
    }
    if case.prog.calls.iter().any(|c| matches!(c, super::bprog::Call::XFrom { .. })) {
        out.class("x-grid-overridden");
    }
    // reference model of the model
    let mut alpha: Vec<i32> = case.prog.calls.iter().rev().find_map(|c| if let Call::Init(v) = c { Some(v.clone()) } else { None }).unwrap();
    let mut broken = vec![false; case.prog.calls.len()];
    let mut rejected_then_ok = false;
    let mut had_rejection = false;
    for (i, op) in case.ops.iter().enumerate() {
        match op {
            MOp::SetRight(v) => {
                let r = model.set_params(DVector::from_vec(v.iter().map(|x| T::of(*x as f64)).collect()));
                if let Err(e) = r {
                    return Err(Fail::new("c17.set_right", format!("op {i}: a parameter vector of the right length was rejected: {e:?}")));
                }
                alpha = v.clone();
            }
            MOp::SetWrong(len) => {
                let r = model.set_params(DVector::from_vec((0..*len).map(|k| T::of(90.0 + k as f64)).collect()));
                match r {
                    Err(ModelError::IncorrectParameterCount { .. }) => {}
                    other => return Err(Fail::new("c17.set_wrong", format!("op {i}: a parameter vector of length {len} (model has {}) gave {other:?} instead of IncorrectParameterCount", exp.p))),
                }
                had_rejection = true;
            }
            MOp::Eval => {
                let ids = exp.eval_call_ids();
                let any_broken = ids.iter().any(|id| broken[*id]);
                match (model.eval(), any_broken) {
                    (Err(ModelError::UnexpectedFunctionOutput { .. }), true) => had_rejection = true,
                    (Ok(m), false) => {
                        let af: Vec<f64> = alpha.iter().map(|x| *x as f64).collect();
                        check_matrix(&m, &exp.eval(&af), exp.n, exp.m, &format!("op {i}: eval()")).map_err(|f| Fail::new("c17.eval_value", f.msg))?;
                        if had_rejection {
                            rejected_then_ok = true;
                        }
                    }
                    (r, b) => {
                        return Err(Fail::new(
                            "c17.eval",
                            format!("op {i}: eval() gave {} although {}", match &r { Ok(m) => format!("Ok({}x{})", m.nrows(), m.ncols()), Err(e) => format!("Err({e:?})") }, if b { "a basis function returns a vector of the wrong length" } else { "all basis functions return vectors of the right length" }),
                        ))
                    }
                }
            }
            MOp::Deriv(k) => {
                let ids = exp.deriv_call_ids(*k);
                let any_broken = ids.iter().any(|id| broken[*id]);
                match (model.eval_partial_deriv(*k), any_broken) {
                    (Err(ModelError::UnexpectedFunctionOutput { .. }), true) => had_rejection = true,
                    (Ok(m), false) => {
                        let af: Vec<f64> = alpha.iter().map(|x| *x as f64).collect();
                        check_matrix(&m, &exp.deriv(*k, &af), exp.n, exp.m, &format!("op {i}: eval_partial_deriv({k})")).map_err(|f| Fail::new("c17.deriv_value", f.msg))?;
                        if had_rejection {
                            rejected_then_ok = true;
                        }
                    }
                    (r, b) => {
                        return Err(Fail::new(
                            "c17.deriv",
                            format!("op {i}: eval_partial_deriv({k}) gave {} although {}", match &r { Ok(m) => format!("Ok({}x{})", m.nrows(), m.ncols()), Err(e) => format!("Err({e:?})") }, if b { "a derivative returns a vector of the wrong length" } else { "all derivatives return vectors of the right length" }),
                        ))
                    }
                }
            }
            MOp::DerivOut(k) => match model.eval_partial_deriv(*k) {
                Err(ModelError::DerivativeIndexOutOfBounds { .. }) => had_rejection = true,
                other => {
                    return Err(Fail::new(
                        "c17.deriv_index",
                        format!("op {i}: eval_partial_deriv({k}) with P = {} gave {} instead of DerivativeIndexOutOfBounds", exp.p, match &other { Ok(m) => format!("Ok({}x{})", m.nrows(), m.ncols()), Err(e) => format!("Err({e:?})") }),
                    ))
                }
            },
            MOp::Break { call, len } => {
                hooks.broken[*call].store(*len, SeqCst);
                broken[*call] = true;
            }
            MOp::Heal { call } => {
                hooks.broken[*call].store(NOT_BROKEN, SeqCst);
                broken[*call] = false;
            }
        }
        // the parameters are those of the last accepted vector, in every situation
        let p = model.params();
        if p.len() != alpha.len() || p.iter().zip(&alpha).any(|(a, b)| !same_bits(*a, T::of(*b as f64))) {
            return Err(Fail::new("c17.params_intact", format!("op {i} ({op:?}): params() = {:?}, but the last accepted vector is {alpha:?}", p.as_slice())));
        }
    }
    out.nontrivial = rejected_then_ok;
    out.class(if case.f32 { "f32" } else { "f64" });
    for op in &case.ops {
        out.class(match op {
            MOp::SetRight(_) => "op:set-right",
            MOp::SetWrong(_) => "op:set-wrong",
            MOp::Eval => "op:eval",
            MOp::Deriv(_) => "op:deriv",
            MOp::DerivOut(_) => "op:deriv-out-of-range",
            MOp::Break { len: 0, .. } => "op:break-empty",
            MOp::Break { len, .. } if *len < exp.n => "op:break-shorter",
            MOp::Break { .. } => "op:break-longer",
            MOp::Heal { .. } => "op:heal",
        });
    }
    out.classes.sort();
    out.classes.dedup();
    Ok(out)
}

impl Property for C17 {
    type Case = C17Case;
    fn id(&self) -> &'static str {
        "C17"
    }
    fn rule(&self) -> String {
        "proptest, stateful: a generated valid builder program (as for C16) and a history of up to 16 operations over {set_params(right length), set_params(wrong length 0, P±1, 3P), eval, eval_partial_deriv(k<P), eval_partial_deriv(k>=P incl. usize::MAX), break closure c (from now on it returns a vector that is shorter, longer or empty), heal closure c}. Oracle: a reference state machine (current alpha, set of broken closures): wrong count => IncorrectParameterCount and params()/evaluations unchanged (bitwise); k >= P => DerivativeIndexOutOfBounds; a broken closure reached by the evaluation => UnexpectedFunctionOutput; otherwise Ok with N x M and the exact C16 values; never a panic. Non-trivial: a rejected call followed by a successful evaluation".into()
    }
    fn cases(&self, tier: Tier) -> usize {
        match tier {
            Tier::Quick => 500_000,
            Tier::Thorough => 20_000_000,
        }
    }
    fn strategy(&self, _tier: Tier) -> BoxedStrategy<C17Case> {
        (proptest::collection::vec(any::<u16>(), 160), proptest::collection::vec((any::<u16>(), any::<u16>(), any::<u16>(), proptest::collection::vec(0i32..40, 10)), 1..=16), any::<bool>())
            .prop_map(|(us, raw_ops, f32)| c17_from_raw(&us, raw_ops, f32))
            .boxed()
    }
    /// the same search again, a fifth of the cases, in the overflow-checked build of the harness
    /// (debug assertions and overflow checks of the library on): "never a panic" is a claim about
    /// every build profile
    fn epilogue(&self, tier: Tier, seed: u64, _counters: &std::collections::BTreeMap<String, u64>, extra: &mut std::collections::BTreeMap<String, serde_json::Value>) -> Result<(), (Fail, serde_json::Value)> {
        crate::engine::run_checked_profile_n("C17", tier, seed, Some((self.cases(tier) / 5).max(50)), extra)
    }
    fn check(&self, case: &C17Case) -> Check {
        if case.f32 {
            run::<f32>(case)
        } else {
            run::<f64>(case)
        }
    }
}

/// the pure construction behind the strategy (also used by the fuzz target c17_misuse);
/// `us` needs at least 160 entries
pub fn c17_from_raw(us: &[u16], raw_ops: Vec<(u16, u16, u16, Vec<i32>)>, f32: bool) -> C17Case {

                // 1 of 64 models is large: 60..139 parameters
    let l = if us[7] % 64 == 1 { 60 + pick(us[6], 80) } else { 1 + pick(us[6], if us[7] % 3 == 0 { 10 } else { 4 }) };
                // (1 of 64 models has an empty independent variable)
    let n = if us[0] % 64 == 5 { 0 } else { 1 + pick(us[0], 6) };
                let prog = valid_program(us, l, 1 + pick(us[8], 3), 1 + pick(us[9], 10), n);
                // closures = function / deriv / invariant calls
                let closures: Vec<usize> = prog.calls.iter().enumerate().filter(|(_, c)| matches!(c, Call::Function { .. } | Call::Deriv { .. } | Call::Invariant { .. })).map(|(i, _)| i).collect();
                let ops = raw_ops
                    .into_iter()
                    .map(|(sel, a, b, v)| match pick(sel, 16) {
                        0..=2 => MOp::SetRight((0..l).map(|i| v[i % v.len()] + (i / 10) as i32).collect()),
                        3 | 4 => {
                            let cands = [0, l + 1, l - 1, 3 * l];
                            let mut len = cands[pick(a, 4)];
                            if len == l {
                                len = l + 2;
                            }
                            MOp::SetWrong(len)
                        }
                        5..=7 => MOp::Eval,
                        8..=10 => MOp::Deriv(pick(a, l)),
                        11 => MOp::DerivOut(if a % 4 == 0 { usize::MAX } else { l + pick(b, 3) }),
                        12..=14 => {
                            let lens = [0, n.saturating_sub(1), n + 1, 2 * n + 3];
                            let mut len = lens[pick(b, 4)];
                            if len == n {
                                len = n + 1;
                            }
                            MOp::Break { call: closures[pick(a, closures.len())], len }
                        }
                        _ => MOp::Heal { call: closures[pick(a, closures.len())] },
                    })
                    .collect();
                C17Case { prog, ops, f32 }
            }

//! C18 — the problem builder accepts exactly consistent inputs and starts at the model's α.
use super::oracles::{check_state, effective_eps, Lin};
use crate::adapt::Prob;
use crate::engine::{pick, Check, Fail, Outcome, Property, Tier};
use crate::fl;
use crate::models::{builder_model, HandModel};
use crate::sc::same_bits;
use crate::spec::{Kind, ModelSpec, Term};
use crate::Sc;
use nalgebra::{DMatrix, DVector};
use proptest::prelude::*;
use serde::{Deserialize, Serialize};
use varpro::prelude::*;
use varpro::solvers::levmar::LevMarProblemBuilder;

pub struct C18;

#[derive(Clone, Debug, Serialize, Deserialize, PartialEq)]
pub enum BCall {
    Obs { rows: usize, cols: usize },
    Weights {
        len: usize,
        /// value pattern: 0 ramp 0.5+0.25 i, 1 all ones, 2 all 2.0, 3 ramp starting at zero, 4 alternating sign,
        /// 5 tiny (1e-10 x ramp: every singular value of W*Phi is far below machine epsilon, so that a
        /// supplied threshold of 0 or a subnormal one is observable)
        #[serde(default)]
        kind: u8,
    },
    Eps(#[serde(with = "fl::one")] f64),
}

#[derive(Clone, Debug, Serialize, Deserialize)]
pub struct C18Case {
    /// model output length (number of samples)
    pub l: usize,
    /// 0 = new, 1 = new_parallel, 2 = mrhs, 3 = mrhs_parallel
    pub ctor: u8,
    pub calls: Vec<BCall>,
    pub hand: bool,
    pub f32: bool,
    /// model with two almost collinear basis functions (smallest singular value ~1e-6)
    pub near_collision: bool,
}

fn model_spec() -> ModelSpec {
    ModelSpec { p: 2, terms: vec![Term { kind: Kind::Exp, args: vec![0] }, Term { kind: Kind::Exp, args: vec![1] }], unit_exp: 0 }
}

fn obs_value(i: usize, j: usize) -> f64 {
    0.37 * (i as f64 + 1.0) - 1.1 * j as f64 + if (i + j) % 2 == 0 { 2.0 } else { -1.5 }
}
fn weight_value(kind: u8, i: usize) -> f64 {
    match kind {
        1 => 1.0,
        2 => 2.0,
        3 => 0.25 * i as f64,
        4 => (0.5 + 0.25 * i as f64) * if i % 2 == 0 { 1.0 } else { -1.0 },
        5 => 1e-10 * (0.5 + 0.25 * i as f64),
        _ => 0.5 + 0.25 * i as f64,
    }
}

macro_rules! fold_calls {
    ($b:expr, $calls:expr, $T:ty, vector) => {{
        let mut b = $b;
        for c in $calls {
            b = match c {
                BCall::Obs { rows, .. } => b.observations(DVector::<$T>::from_fn(*rows, |i, _| <$T as Sc>::of(obs_value(i, 0)))),
                BCall::Weights { len, kind } => b.weights(DVector::<$T>::from_fn(*len, |i, _| <$T as Sc>::of(weight_value(*kind, i)))),
                BCall::Eps(e) => b.epsilon(<$T as Sc>::of(*e)),
            };
        }
        b.build().map(|p| Box::new(p) as Box<dyn Prob<$T>>).map_err(|e| format!("{:?}", e))
    }};
    ($b:expr, $calls:expr, $T:ty, matrix) => {{
        let mut b = $b;
        for c in $calls {
            b = match c {
                BCall::Obs { rows, cols } => b.observations(DMatrix::<$T>::from_fn(*rows, *cols, |i, j| <$T as Sc>::of(obs_value(i, j)))),
                BCall::Weights { len, kind } => b.weights(DVector::<$T>::from_fn(*len, |i, _| <$T as Sc>::of(weight_value(*kind, i)))),
                BCall::Eps(e) => b.epsilon(<$T as Sc>::of(*e)),
            };
        }
        b.build().map(|p| Box::new(p) as Box<dyn Prob<$T>>).map_err(|e| format!("{:?}", e))
    }};
}

fn build_with<T: Sc, M>(model: M, ctor: u8, calls: &[BCall]) -> Result<Box<dyn Prob<T>>, String>
where
    M: SeparableNonlinearModel<ScalarType = T> + Send + Sync + 'static,
{
    match ctor {
        0 => fold_calls!(LevMarProblemBuilder::new(model), calls, T, vector),
        1 => fold_calls!(LevMarProblemBuilder::new_parallel(model), calls, T, vector),
        2 => fold_calls!(LevMarProblemBuilder::mrhs(model), calls, T, matrix),
        _ => fold_calls!(LevMarProblemBuilder::mrhs_parallel(model), calls, T, matrix),
    }
}

fn alpha0(near: bool) -> [f64; 2] {
    if near {
        [2.0, 2.0 * (1.0 + 1e-6)]
    } else {
        [1.0, 4.0]
    }
}

fn build<T: Sc>(case: &C18Case, calls: &[BCall]) -> Result<Box<dyn Prob<T>>, String> {
    let spec = model_spec();
    let x: Vec<T> = (0..case.l).map(|i| T::of(if case.l <= 1 { 0.5 } else { 6.0 * i as f64 / (case.l - 1) as f64 })).collect();
    let a: Vec<T> = alpha0(case.near_collision).iter().map(|v| T::of(*v)).collect();
    if case.hand || case.l == 0 {
        build_with::<T, _>(HandModel::new(&spec, &x, &a), case.ctor, calls)
    } else {
        let m = builder_model(&spec, &x, &a, None, false).map_err(|e| format!("model builder: {e:?}"))?;
        build_with::<T, _>(m, case.ctor, calls)
    }
}

#[derive(Debug, PartialEq, Eq, Clone, Copy)]
enum Req {
    YDataMissing,
    ZeroLengthVector,
    InvalidLengthOfData,
    InvalidLengthOfWeights,
}

/// declarative specification: the set of violated requirements (last call of each kind counts)
fn violated(case: &C18Case) -> Vec<Req> {
    let mrhs = case.ctor >= 2;
    let obs = case.calls.iter().rev().find_map(|c| if let BCall::Obs { rows, cols } = c { Some((*rows, if mrhs { *cols } else { 1 })) } else { None });
    let w = case.calls.iter().rev().find_map(|c| if let BCall::Weights { len, .. } = c { Some(*len) } else { None });
    let mut v = vec![];
    match obs {
        None => v.push(Req::YDataMissing),
        Some((rows, cols)) => {
            if case.l == 0 || rows * cols == 0 {
                v.push(Req::ZeroLengthVector);
            }
            if rows != case.l {
                v.push(Req::InvalidLengthOfData);
            }
            if let Some(len) = w {
                if len != rows {
                    v.push(Req::InvalidLengthOfWeights);
                }
            }
        }
    }
    v
}

fn req_of(err: &str) -> Option<Req> {
    if err.starts_with("YDataMissing") {
        Some(Req::YDataMissing)
    } else if err.starts_with("ZeroLengthVector") {
        Some(Req::ZeroLengthVector)
    } else if err.starts_with("InvalidLengthOfData") {
        Some(Req::InvalidLengthOfData)
    } else if err.starts_with("InvalidLengthOfWeights") {
        Some(Req::InvalidLengthOfWeights)
    } else {
        None
    }
}

fn bits<T: Sc>(v: impl Iterator<Item = T>) -> Vec<u64> {
    v.map(|x| if x.f().is_nan() { u64::MAX } else { x.bits() }).collect()
}
fn image<T: Sc>(p: &dyn Prob<T>) -> (Vec<u64>, Option<Vec<u64>>, Option<Vec<u64>>, Option<Vec<u64>>, Vec<u64>) {
    (
        bits(p.params().into_iter()),
        p.coeffs().map(|c| bits(c.iter().copied())),
        p.residuals().map(|r| bits(r.into_iter())),
        p.jacobian().map(|j| bits(j.iter().copied())),
        bits(p.wdata().iter().copied()),
    )
}

fn run<T: Sc>(case: &C18Case) -> Check {
    let mut out = Outcome::default();
    let viol = violated(case);
    let res = build::<T>(case, &case.calls);
    match (&res, viol.is_empty()) {
        (Ok(_), false) => return Err(Fail::new("c18.accepted_inconsistent", format!("build() succeeded although these requirements are violated: {viol:?}"))),
        (Err(e), true) => return Err(Fail::new("c18.rejected_consistent", format!("build() failed with {e} although all requirements hold"))),
        (Err(e), false) => {
            if e.starts_with("model builder") {
                return Err(Fail::new("harness", e.clone()));
            }
            match req_of(e) {
                Some(r) if viol.contains(&r) => {}
                _ => return Err(Fail::new("c18.wrong_error", format!("build() failed with {e}, but the violated requirements are {viol:?}"))),
            }
            out.class(format!("err:{}", e.split(|c: char| !c.is_alphanumeric()).next().unwrap_or("")));
        }
        (Ok(p), true) => {
            let p = p.as_ref();
            out.class("ok");
            // starts at the model's initial parameters
            let a0: Vec<T> = alpha0(case.near_collision).iter().map(|v| T::of(*v)).collect();
            let params = p.params();
            if params.len() != 2 || params.iter().zip(&a0).any(|(a, b)| !same_bits(*a, *b)) {
                return Err(Fail::new("c18.initial_params", format!("the built problem reports parameters {params:?}, the model's initial parameters are {a0:?}")));
            }
            // threshold = |last epsilon| or machine epsilon
            let eps_call = case.calls.iter().rev().find_map(|c| if let BCall::Eps(e) = c { Some(*e) } else { None });
            let eps = effective_eps::<T>(eps_call);
            // residuals and coefficients are already there (the model evaluates at alpha0) and correct
            if p.coeffs().is_none() || p.residuals().is_none() {
                return Err(Fail::new("c18.initial_state_absent", format!("the model evaluates at its initial parameters, but the built problem exposes no residuals/coefficients (epsilon call: {eps_call:?})")));
            }
            let (skipped, lin) = check_state(p, eps, "built problem")?;
            for s in skipped {
                out.skip(s);
            }
            if let Some(lin) = lin {
                out.class(format!("rank:{:?}", lin.class));
                // weighted data: weights of the last weights call
                let w = case.calls.iter().rev().find_map(|c| if let BCall::Weights { len, kind } = c { Some((*len, *kind)) } else { None });
                let (rows, cols) = case.calls.iter().rev().find_map(|c| if let BCall::Obs { rows, cols } = c { Some((*rows, if case.ctor >= 2 { *cols } else { 1 })) } else { None }).unwrap();
                let y = DMatrix::<T>::from_fn(rows, cols, |i, j| T::of(obs_value(i, j)));
                let wv: Option<Vec<T>> = w.map(|(len, kind)| (0..len).map(|i| T::of(weight_value(kind, i))).collect());
                super::oracles::check_weighted_data(p, &y, wv.as_deref(), "built problem")?;
                let _ = Lin::k(&lin);
            }
            // order and repetition of the calls do not matter: canonical program
            let mut canon: Vec<BCall> = vec![];
            for kind in 0..3 {
                if let Some(c) = case.calls.iter().rev().find(|c| matches!((kind, c), (0, BCall::Eps(_)) | (1, BCall::Weights { .. }) | (2, BCall::Obs { .. }))) {
                    canon.push(c.clone());
                }
            }
            let q = build::<T>(case, &canon).map_err(|e| Fail::new("c18.order", format!("the canonical ordering of the same calls fails with {e}")))?;
            if image(p) != image(q.as_ref()) {
                return Err(Fail::new("c18.order", format!("the problem built from {:?} differs (bitwise) from the one built from the same final calls in another order {:?}", case.calls, canon)));
            }
            if canon != case.calls {
                out.class("ok:reordered-or-repeated");
            }
        }
    }
    out.nontrivial = true;
    out.class(format!("ctor={}", ["new", "new_parallel", "mrhs", "mrhs_parallel"][case.ctor as usize]));
    Ok(out)
}

fn enumerate_grid() -> (String, Box<dyn Iterator<Item = C18Case> + Send>) {
    let mut v = vec![];
    for l in 0..=4usize {
        for rows in 0..=4usize {
            for cols in 0..=2usize {
                for wsel in 0..13u8 {
                    for esel in 0..5u8 {
                        for ctor in 0..4u8 {
                            if ctor < 2 && cols != 1 {
                                continue;
                            }
                            for order in 0..4u8 {
                                let obs = BCall::Obs { rows, cols };
                                // wsel 5..8: the same lengths with all-ones weights
                                // wsel 9..12: the same lengths with tiny weights
                                let wkind = if wsel >= 9 { 5 } else if wsel >= 5 { 1 } else { 0 };
                                let w = match if wsel >= 9 { wsel - 8 } else if wsel >= 5 { wsel - 4 } else { wsel } {
                                    0 => None,
                                    1 => Some(rows),
                                    2 => Some(rows + 1),
                                    3 => Some(rows.saturating_sub(1)),
                                    _ => Some(0),
                                }
                                .map(|len| BCall::Weights { len, kind: wkind });
                                let e = match esel {
                                    0 => None,
                                    1 => Some(BCall::Eps(1e-3)),
                                    2 => Some(BCall::Eps(-1e-3)),
                                    3 => Some(BCall::Eps(0.0)),
                                    _ => Some(BCall::Eps(-1e-310)),
                                };
                                let mut calls: Vec<BCall> = vec![];
                                match order {
                                    0 => {
                                        calls.push(obs);
                                        calls.extend(w);
                                        calls.extend(e);
                                    }
                                    1 => {
                                        calls.extend(e);
                                        calls.extend(w);
                                        calls.push(obs);
                                    }
                                    2 => {
                                        // repetition: an earlier inconsistent call is overwritten
                                        calls.push(BCall::Obs { rows: rows + 2, cols: cols.max(1) });
                                        calls.push(BCall::Weights { len: rows + 3, kind: 0 });
                                        calls.push(BCall::Eps(0.5));
                                        calls.extend(w.clone().or(Some(BCall::Weights { len: rows, kind: 0 })));
                                        calls.push(obs);
                                        calls.extend(e.clone().or(Some(BCall::Eps(1e-9))));
                                    }
                                    _ => {
                                        // no observations at all
                                        calls.extend(w);
                                        calls.extend(e);
                                    }
                                }
                                v.push(C18Case { l, ctor, calls, hand: (l + rows + order as usize) % 2 == 0, f32: (rows + cols + wsel as usize) % 3 == 0, near_collision: (l + esel as usize) % 2 == 1 });
                            }
                        }
                    }
                }
            }
        }
    }
    let desc = "full grid: model output length 0..4 x observation rows 0..4 x columns 0..2 (multi-rhs; single-rhs constructors take vectors) x weights {none, rows, rows+1, rows-1, 0 entries; ramp values, all ones, tiny} x epsilon {none, +1e-3, -1e-3, 0, -1e-310} x 4 constructors x 4 call orders (obs first, obs last, with overwritten earlier calls, without observations)".to_string();
    (desc, Box::new(v.into_iter()))
}

impl Property for C18 {
    type Case = C18Case;
    fn id(&self) -> &'static str {
        "C18"
    }
    fn rule(&self) -> String {
        "call programs over {observations(rows x cols), weights(len; values: ramp, all ones, all equal, with a zero, alternating sign), epsilon(±e)} in any order and multiplicity on new / new_parallel / mrhs / mrhs_parallel with model output length 0..6: a full shape grid is enumerated exhaustively, longer programs with repetitions are generated by proptest. Oracle: declarative specification (the last call of each kind counts): Ok iff observations given, model output length > 0, observations non-empty, rows = output length and (weights given => one weight per row); an Err names a violated requirement; on Ok: params() = the model's initial alpha (bitwise), residuals and coefficients present and correct (C01/C02 oracles with the threshold |e| or machine epsilon; a model with smallest singular value ~1e-6 makes the threshold observable), weighted data = W∘Y, and the same final calls in canonical order give a bitwise identical problem. Every case is non-trivial (each is a distinct program/shape)".into()
    }
    fn cases(&self, tier: Tier) -> usize {
        match tier {
            Tier::Quick => 300_000,
            Tier::Thorough => 10_000_000,
        }
    }
    fn strategy(&self, _tier: Tier) -> BoxedStrategy<C18Case> {
        (0usize..=6, 0u8..4, proptest::collection::vec((any::<u16>(), any::<u16>(), any::<u16>()), 0..=7), any::<u16>())
            .prop_map(|(l, ctor, raw, flags)| c18_from_raw(l, ctor, raw, flags))
            .boxed()
    }
    fn enumerate(&self, _tier: Tier) -> Option<(String, Box<dyn Iterator<Item = C18Case> + Send>)> {
        Some(enumerate_grid())
    }
    /// the same search again, a fifth of the cases, in the overflow-checked build of the harness
    /// (debug assertions and overflow checks of the library on): "never a panic" is a claim about
    /// every build profile
    fn epilogue(&self, tier: Tier, seed: u64, _counters: &std::collections::BTreeMap<String, u64>, extra: &mut std::collections::BTreeMap<String, serde_json::Value>) -> Result<(), (Fail, serde_json::Value)> {
        crate::engine::run_checked_profile_n("C18", tier, seed, Some((self.cases(tier) / 5).max(50)), extra)
    }
    fn check(&self, case: &C18Case) -> Check {
        if case.f32 {
            run::<f32>(case)
        } else {
            run::<f64>(case)
        }
    }
}

/// the pure construction behind the strategy (also used by the fuzz target)
pub fn c18_from_raw(l: usize, ctor: u8, raw: Vec<(u16, u16, u16)>, flags: u16) -> C18Case {
    {
        {
            {
                let calls = raw
                    .into_iter()
                    .map(|(sel, a, b)| match pick(sel, 5) {
                        0 | 1 => {
                            // rows equal to the model length half of the time
                            let rows = if a % 2 == 0 { l } else { pick(a, 7) };
                            BCall::Obs { rows, cols: if b % 3 == 0 { pick(b, 5) } else { 1 + pick(b, 4) } }
                        }
                        2 | 3 => BCall::Weights { len: if a % 2 == 0 { l } else { pick(a, 8) }, kind: [0u8, 0, 1, 1, 2, 3, 4, 5][pick(b, 8)] },
                        _ => BCall::Eps([1e-3, -1e-3, 1e-9, -1e-12, 0.0, 2e-6, -5e-7, -0.0, 1e-310, -1e-310, 1e-30, -1e-25][pick(a, 12)]),
                    })
                    .collect();
                C18Case { l, ctor, calls, hand: flags & 1 == 1, f32: flags & 6 == 6, near_collision: flags & 8 == 8 }
            }
        }
    }
}

//! C19 — reported uncertainties are statistically calibrated under the model assumptions.
use super::c13::fit_with_stats;
use crate::engine::{splitmix64, Check, Fail, Outcome, Property, Tier};
use crate::fl;
use crate::gen::{family_strategy, FamCase, FamCfg};
use crate::oracle::student::t_two_sided;
use proptest::prelude::*;
use serde::{Deserialize, Serialize};
use serde_json::{json, Value};
use std::collections::BTreeMap;

pub struct C19;

#[derive(Clone, Debug, Serialize, Deserialize)]
pub struct C19Case {
    pub fam: FamCase,
    #[serde(with = "fl::one")]
    pub p: f64,
    /// number of noise realisations
    pub reps: usize,
}

pub const Z: f64 = 6.5;
/// allowance for the residual nonlinearity of the model over the scatter of the estimates
pub const NONLIN: f64 = 0.005;

fn run(case: &C19Case) -> Check {
    let mut out = Outcome::default();
    let fam0 = &case.fam;
    let (n, m, pn) = (fam0.n(), fam0.spec.m(), fam0.spec.p);
    let nu = (n - m - pn) as f64;
    let p = case.p;
    let t = t_two_sided(p, nu);
    let truth = fam0.clean();
    let reps = case.reps;
    let mut ok = 0usize;
    let mut hits_band = vec![0usize; n];
    let mut hits_c = vec![0usize; m];
    let mut hits_a = vec![0usize; pn];
    let mut chi_sum = 0.0;
    // weights exactly 1/sigma_i?
    let exact_w = match &fam0.w {
        Some(w) => w.iter().zip(&fam0.sigma).all(|(w, s)| ((w * s) - 1.0).abs() < 1e-12),
        None => false,
    };
    // premise: small-noise regime, the model is effectively linear over the scatter of the
    // estimates. Decided by the oracle from the generating parameters and the known sigma_i
    // (not from anything the code under test reports): the relative standard deviation of every
    // nonlinear parameter, from (H^T H)^-1 with H = diag(1/sigma) [Phi | D_k c*] at the truth,
    // must be <= 2 % (3 % until a thorough run met a coverage of 0.729 for 0.683).
    let premise_ok = {
        let q = m + pn;
        let mut h = crate::oracle::Mat::zeros(n, q);
        for j in 0..m {
            let col = fam0.spec.eval_col::<f64>(j, &fam0.x, &fam0.alpha_true);
            for i in 0..n {
                h.set(i, j, col[i] / fam0.sigma[i]);
            }
        }
        for k in 0..pn {
            for j in 0..m {
                let d = fam0.spec.deriv_col::<f64>(j, k, &fam0.x, &fam0.alpha_true);
                for i in 0..n {
                    let v = h.at(i, m + k) + d[i] * fam0.c_true[0][j] / fam0.sigma[i];
                    h.set(i, m + k, v);
                }
            }
        }
        let sv = crate::oracle::linalg::svd(&h);
        let cov = crate::oracle::linalg::inv_gram_from_svd(&sv);
        // and the weighted basis matrix must be of clearly full rank with respect to the library's
        // ABSOLUTE singular-value threshold (machine epsilon): with data in large units the honest
        // weights 1/sigma_i are ~1e-16, every singular value of W∘Phi counts as zero (C01) and the
        // estimates are the truncated ones — outside what C19 speaks about (silence seeds 7010, 7013)
        let above_threshold = {
            let mut a = crate::oracle::Mat::zeros(n, m);
            for j in 0..m {
                let col = fam0.spec.eval_col::<f64>(j, &fam0.x, &fam0.alpha_true);
                for i in 0..n {
                    a.set(i, j, col[i] * fam0.w.as_ref().map(|w| w[i]).unwrap_or(1.0));
                }
            }
            crate::oracle::linalg::svd(&a).smin() > 1e4 * f64::EPSILON
        };
        // peaks must be resolved by the sample grid (width >= 1.5 x the largest spacing): a Gaussian of
        // width 0.5 on a grid of spacing 0.9 is seen by one or two samples, and its width estimate is far
        // from linear in the noise even at 3 % scatter (thorough tier: coverage 0.729 instead of 0.683)
        let resolved = {
            let mut xs = fam0.x.clone();
            xs.sort_by(|a, b| a.partial_cmp(b).unwrap());
            let spacing = xs.windows(2).map(|w| w[1] - w[0]).fold(0.0f64, f64::max);
            fam0.spec.terms.iter().all(|t| !matches!(t.kind, crate::spec::Kind::Gauss | crate::spec::Kind::Lorentz) || fam0.alpha_true[t.args[1]].abs() >= 1.5 * spacing)
        };
        resolved && above_threshold && sv.smin() > 0.0 && (0..pn).all(|k| cov.at(m + k, m + k).sqrt() <= 0.02 * fam0.alpha_true[k].abs())
    };
    for r in 0..if premise_ok { reps } else { 0 } {
        let mut fam = fam0.clone();
        fam.noise_seed = splitmix64(fam0.noise_seed ^ (r as u64).wrapping_mul(0x9e37_79b9_7f4a_7c15));
        let fo = fit_with_stats::<f64>(&fam)?;
        let (Some(st), Some(bf), Some(c)) = (fo.stats.as_ref(), fo.best_fit.as_ref(), fo.coeffs.as_ref()) else { continue };
        if !fo.ok {
            continue;
        }
        let (lv, nv) = (st.lin_var(), st.nonlin_var());
        ok += 1;
        let band = st.band(p);
        for i in 0..n {
            if (bf[(i, 0)] - truth[0][i]).abs() <= band[i] {
                hits_band[i] += 1;
            }
        }
        for j in 0..m {
            if (c[(j, 0)] - fam0.c_true[0][j]).abs() <= t * lv[j].sqrt() {
                hits_c[j] += 1;
            }
        }
        for k in 0..pn {
            if (fo.alpha[k] - fam0.alpha_true[k]).abs() <= t * nv[k].sqrt() {
                hits_a[k] += 1;
            }
        }
        chi_sum += st.chi2();
    }
    out.class(format!("family={}", fam0.family));
    for r in fam0.regime() {
        out.class(r);
    }
    out.class(format!("p={p}"));
    out.class(if fam0.w.is_some() { "weighted" } else { "unweighted" });
    if !premise_ok {
        out.class("not-evaluable:outside-small-noise-regime");
        return Ok(out);
    }
    if (ok as f64) < 0.99 * reps as f64 {
        out.class("not-evaluable:fits-failing");
        out.count("failed_realisations", (reps - ok) as u64);
        return Ok(out);
    }
    let rr = ok as f64;
    let tol = Z * (p * (1.0 - p) / rr).sqrt() + NONLIN;
    let judge = |what: &str, idx: usize, hits: usize| -> Result<(), Fail> {
        let f = hits as f64 / rr;
        if (f - p).abs() > tol {
            return Err(Fail::new(
                "c19.coverage",
                format!("{what} {idx}: the true value lies inside the reported {p}-interval in {hits} of {ok} noise realisations = {f:.4}; expected {p} ± {tol:.4} (nu = {nu}, z = {Z}, nonlinearity allowance {NONLIN})"),
            ));
        }
        Ok(())
    };
    for i in 0..n {
        judge("confidence band at sample", i, hits_band[i])?;
    }
    for j in 0..m {
        judge("linear coefficient", j, hits_c[j])?;
    }
    for k in 0..pn {
        judge("nonlinear parameter", k, hits_a[k])?;
    }
    if exact_w {
        let mean = chi_sum / rr;
        let tolc = Z * (2.0 / (nu * rr)).sqrt() + NONLIN;
        if (mean - 1.0).abs() > tolc {
            return Err(Fail::new("c19.chi2_mean", format!("with weights exactly 1/sigma_i the reduced chi2 averages {mean:.4} over {ok} realisations; expected 1 ± {tolc:.4}")));
        }
        out.class("chi2-mean:checked");
    }
    // pooled over the whole run (epilogue): hits and expected hits
    let all_hits: usize = hits_band.iter().chain(&hits_c).chain(&hits_a).sum();
    let stats = n + m + pn;
    out.count("pooled_hits", all_hits as u64);
    out.count("pooled_trials", (stats * ok) as u64);
    out.count("pooled_expected_hits_x1e6", (stats as f64 * rr * p * 1e6) as u64);
    out.count("pooled_variance_x1e6", (stats as f64 * rr * p * (1.0 - p) * 1e6) as u64);
    out.count("statistics_tested", stats as u64 + u64::from(exact_w));
    out.count("fits", ok as u64);
    out.count("failed_realisations", (reps - ok) as u64);
    out.nontrivial = true;
    Ok(out)
}

impl Property for C19 {
    type Case = C19Case;
    fn id(&self) -> &'static str {
        "C19"
    }
    fn regimes(&self) -> &'static str {
        crate::gen::REGIMES_FAMILY
    }
    fn rule(&self) -> String {
        format!("proptest generates configurations = (instance of the model families with at most two decays, truth (alpha*, c*), N in 12..40 (a quarter of the configurations with only nu = 2..5 degrees of freedom), heteroscedastic Gaussian noise profile with sigma ratio <= 10 at relative level 3e-4..3e-3 and weights k/sigma_i (k = 1 or generated), or constant sigma with uniform weights k/sigma or without weights, in natural units of x or (15 %) in units 1e±3, 1e±6, 1e±9, p in {{0.5, 0.683, 0.8, 0.9, 0.95, 0.99}}); each configuration is fitted for R noise realisations expanded deterministically from the generated seed. Oracle per configuration and per statistic (each sample's band, each c_j, each alpha_k): |hits/R - p| <= {Z}·sqrt(p(1-p)/R) + {NONLIN}; with weights exactly 1/sigma_i: |mean(reduced chi2) - 1| <= {Z}·sqrt(2/(nu R)) + {NONLIN}; pooled over the run: |sum(hits - R p)| / sqrt(sum R p (1-p)) <= {Z} after a 0.4% allowance. Non-trivial: configurations in the small-noise premise (relative standard deviation of every nonlinear parameter <= 2 %, peaks resolved by the sample grid, weighted basis matrix clearly above the library's absolute threshold) in which >= 99% of the fits succeed; others are reported as not evaluable")
    }
    fn level(&self) -> &'static str {
        "exploration"
    }
    fn assumptions(&self) -> Vec<String> {
        vec![
            "a statistical oracle: at z = 6.5 one statistic false-alarms with probability 8e-11; power: coverage shifts >~ 4% at quick size".into(),
            "premise of the property (small noise, effectively linear model) is enforced by construction and by the 3% criterion".into(),
        ]
    }
    fn shards(&self) -> usize {
        16
    }
    fn max_shrink_iters(&self) -> u32 {
        8
    }
    fn cases(&self, tier: Tier) -> usize {
        match tier {
            Tier::Quick => 48,
            Tier::Thorough => 1200,
        }
    }
    fn strategy(&self, tier: Tier) -> BoxedStrategy<C19Case> {
        let cfg = FamCfg { max_s: 1, min_n: 12, max_n: 40, noise_lo: 3e-4, noise_hi: 3e-3, noiseless_16: 0, start_rel: 0.01, allow_f32: false, weights: false, calibrated_weights: true, extra_families: false, wide_weights: false, max_decays: 2, units: true, long_data: false };
        let reps = match tier {
            Tier::Quick => 4000,
            Tier::Thorough => 6000,
        };
        (family_strategy(cfg), any::<u16>())
            .prop_map(move |(mut fam, ps)| {
                fam.mrhs = false;
                fam.c_true.truncate(1);
                // a quarter of the configurations with very few degrees of freedom (nu = 2..5)
                if ps % 4 == 0 {
                    let mp = fam.spec.m() + fam.spec.p;
                    let n = mp + 2 + (ps as usize / 4) % 4;
                    let pick_idx: Vec<usize> = (0..n).map(|i| i * (fam.x.len() - 1) / (n - 1)).collect();
                    fam.x = pick_idx.iter().map(|&i| fam.x[i]).collect();
                    fam.sigma = pick_idx.iter().map(|&i| fam.sigma[i]).collect();
                    if let Some(w) = &mut fam.w {
                        *w = pick_idx.iter().map(|&i| w[i]).collect();
                    }
                }
                let p = [0.5, 0.683, 0.8, 0.9, 0.95, 0.99][crate::engine::pick(ps, 6)];
                C19Case { fam, p, reps }
            })
            .boxed()
    }
    fn check(&self, case: &C19Case) -> Check {
        run(case)
    }
    fn epilogue(&self, _tier: Tier, _seed: u64, counters: &BTreeMap<String, u64>, extra: &mut BTreeMap<String, Value>) -> Result<(), (Fail, Value)> {
        let hits = *counters.get("pooled_hits").unwrap_or(&0) as f64;
        let exp = *counters.get("pooled_expected_hits_x1e6").unwrap_or(&0) as f64 / 1e6;
        let var = *counters.get("pooled_variance_x1e6").unwrap_or(&0) as f64 / 1e6;
        let trials = *counters.get("pooled_trials").unwrap_or(&0) as f64;
        if trials == 0.0 {
            return Ok(());
        }
        let dev = (hits - exp).abs();
        let allowance = 0.004 * trials;
        let z = ((dev - allowance).max(0.0)) / var.sqrt().max(1.0);
        extra.insert("pooled".into(), json!({"hits": hits, "expected": exp, "trials": trials, "relative_deviation": (hits - exp) / trials, "z_after_allowance": z}));
        if z > Z {
            return Err((
                Fail::new("c19.pooled_coverage", format!("pooled over all configurations: {hits} hits in {trials} interval trials, expected {exp:.0} (relative deviation {:.5}, z after the 0.4% allowance {z:.1})", (hits - exp) / trials)),
                Value::Null,
            ));
        }
        Ok(())
    }
}

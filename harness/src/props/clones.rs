//! C10 — clones of a problem are independent objects: using a clone (updating and querying it)
//! must not change what the original reports, and vice versa. `LevMarProblem` derives `Clone`
//! whenever the model is `Clone` (hand-written models; the builder-made `SeparableModel` is not),
//! so this part of C10 works on the concrete problem types instead of the object-safe view.
use crate::engine::Fail;
use crate::gen::ProblemCase;
use crate::models::HandModel;
use crate::Sc;
use levenberg_marquardt::LeastSquaresProblem;
use nalgebra::{DMatrix, DVector, Dyn, Owned};
use varpro::prelude::*;
use varpro::solvers::levmar::LevMarProblem;
use varpro::solvers::levmar::LevMarProblemBuilder;

/// bit image of what a problem reports
fn image<T: Sc>(params: DVector<T>, r: Option<DVector<T>>, j: Option<DMatrix<T>>, c: Option<DMatrix<T>>) -> Vec<Option<Vec<u64>>> {
    let bits = |it: &mut dyn Iterator<Item = T>| -> Vec<u64> { it.map(|v| if v.f().is_nan() { u64::MAX } else { v.bits() }).collect() };
    vec![
        Some(bits(&mut params.iter().copied())),
        r.map(|m| bits(&mut m.iter().copied())),
        j.map(|m| bits(&mut m.iter().copied())),
        c.map(|m| bits(&mut m.iter().copied())),
    ]
}

fn snap_srhs<T: Sc, M, const PAR: bool>(p: &LevMarProblem<M, false, PAR>) -> Vec<Option<Vec<u64>>>
where
    M: SeparableNonlinearModel<ScalarType = T>,
    LevMarProblem<M, false, PAR>: LeastSquaresProblem<T, Dyn, Dyn, ParameterStorage = Owned<T, Dyn>, ResidualStorage = Owned<T, Dyn>, JacobianStorage = Owned<T, Dyn, Dyn>>,
{
    image::<T>(p.params(), p.residuals(), p.jacobian(), p.linear_coefficients().map(|m| {
        let (r, cc) = m.shape();
        DMatrix::from_iterator(r, cc, m.iter().copied())
    }))
}

fn snap_mrhs<T: Sc, M, const PAR: bool>(p: &LevMarProblem<M, true, PAR>) -> Vec<Option<Vec<u64>>>
where
    M: SeparableNonlinearModel<ScalarType = T>,
    LevMarProblem<M, true, PAR>: LeastSquaresProblem<T, Dyn, Dyn, ParameterStorage = Owned<T, Dyn>, ResidualStorage = Owned<T, Dyn>, JacobianStorage = Owned<T, Dyn, Dyn>>,
{
    image::<T>(p.params(), p.residuals(), p.jacobian(), p.linear_coefficients().map(|m| {
        let (r, cc) = m.shape();
        DMatrix::from_iterator(r, cc, m.iter().copied())
    }))
}

macro_rules! interleave {
    ($builder:expr, $obs:expr, $case:expr, $other:expr, $T:ty, $snap:ident) => {{
        let case: &ProblemCase = $case;
        let mut b = $builder.observations($obs);
        if let Some(w) = &case.w {
            b = b.weights(DVector::from_iterator(w.len(), w.iter().map(|v| <$T as Sc>::of(*v))));
        }
        if let Some(e) = case.eps {
            b = b.epsilon(<$T as Sc>::of(e));
        }
        let a = b.build().map_err(|e| Fail::new("build", format!("{e:?}")))?;
        let before = $snap(&a);
        // a clone is updated and queried ...
        let mut bclone = a.clone();
        let other: Vec<$T> = $other.iter().map(|v| <$T as Sc>::of(*v)).collect();
        bclone.set_params(&DVector::from_vec(other));
        let image_b = $snap(&bclone);
        // ... the original must report what it reported before
        let after = $snap(&a);
        if before != after {
            let which = ["parameters", "residuals", "Jacobian", "coefficients"];
            let k = (0..4).find(|i| before[*i] != after[*i]).unwrap();
            return Err(Fail::new("c10.clone_interference", format!("the {} of an untouched problem changed after a clone of it was updated and queried", which[k])));
        }
        // and the clone must still report what it reported before the original was queried
        if $snap(&bclone) != image_b {
            return Err(Fail::new("c10.clone_interference", "a clone's reports changed after the original problem was queried".to_string()));
        }
        // a second clone taken from the updated clone starts from the clone's state
        let c2 = bclone.clone();
        if $snap(&c2) != image_b {
            return Err(Fail::new("c10.clone_state", "a clone does not report the state of the problem it was cloned from".to_string()));
        }
        Ok(())
    }};
}

/// hand-written models only; `other` is a second parameter vector
pub fn check<T: Sc>(case: &ProblemCase, other: &[f64]) -> Result<(), Fail> {
    if !case.hand || other.len() != case.spec.p {
        return Ok(());
    }
    let x: Vec<T> = case.xs();
    let a0: Vec<T> = case.alphas();
    let model = HandModel::<T>::new(&case.spec, &x, &a0);
    let (n, s) = (case.n(), case.s());
    let ymat = DMatrix::<T>::from_fn(n, s, |i, j| T::of(case.y[j][i]));
    let yvec = DVector::<T>::from_fn(n, |i, _| T::of(case.y[0][i]));
    match (case.mrhs || s > 1, case.par) {
        (false, false) => interleave!(LevMarProblemBuilder::new(model), yvec, case, other, T, snap_srhs),
        (false, true) => interleave!(LevMarProblemBuilder::new_parallel(model), yvec, case, other, T, snap_srhs),
        (true, false) => interleave!(LevMarProblemBuilder::mrhs(model), ymat, case, other, T, snap_mrhs),
        (true, true) => interleave!(LevMarProblemBuilder::mrhs_parallel(model), ymat, case, other, T, snap_mrhs),
    }
}

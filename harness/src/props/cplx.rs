//! Complex-valued models (C01, C02, C03): varpro's problems are generic over `ComplexField`, and
//! the crate documents complex valued basis functions. A problem with a complex scalar type
//! cannot be handed to the Levenberg-Marquardt crate (it needs a real field), but it can be
//! built, its parameters can be set by the caller, and it reports coefficients, residuals and
//! a Jacobian — which is what C01, C02 and C03 speak about.
//!
//! Model: K damped complex oscillations E_k(x) = exp(i w_k x) with complex w_k = a_k + i b_k
//! (d/dw_k = i x E_k), optionally a constant; built with `SeparableModelBuilder<Complex<f64>>`.
//! Oracle: the complex least-squares problem min |A c - b| is the real problem of twice the size
//! with A^ = [Re A, -Im A; Im A, Re A], b^ = [Re b; Im b], c^ = [Re c; Im c] (same minimiser, same
//! singular values, each twice); the harness' real Jacobi SVD is applied to the embedding.
use crate::engine::{Check, Fail, Outcome};
use crate::oracle::linalg::{norm2, svd, Mat};
use levenberg_marquardt::LeastSquaresProblem;
use nalgebra::{Complex, DMatrix, DVector};
use serde::{Deserialize, Serialize};
use varpro::prelude::*;
use varpro::solvers::levmar::LevMarProblemBuilder;

type C = Complex<f64>;

#[derive(Clone, Debug, Serialize, Deserialize)]
pub struct CplxCase {
    pub n: usize,
    /// number of oscillating terms (each with its own complex parameter)
    pub k: usize,
    pub offset: bool,
    /// (re, im) of every parameter: the initial vector and up to two caller updates
    pub alphas: Vec<Vec<(f64, f64)>>,
    /// S columns of N complex observations
    pub y: Vec<Vec<(f64, f64)>>,
    /// complex diagonal weights (None = unweighted)
    pub w: Option<Vec<(f64, f64)>>,
    pub eps: Option<f64>,
    pub mrhs: bool,
    pub par: bool,
}

fn c(v: (f64, f64)) -> C {
    C::new(v.0, v.1)
}

/// pure construction from raw 16-bit material (at least 64 entries)
pub fn cplx_from_raw(us: &[u16]) -> CplxCase {
    let u = |i: usize| us[i % us.len()] as f64 / 65536.0;
    let k = 1 + (us[0] % 3) as usize;
    let offset = us[1] % 2 == 0;
    let m = k + offset as usize;
    let n = m + 1 + (us[2] % 12) as usize;
    let s = if us[3] % 3 == 0 { 1 } else { 1 + (us[3] % 4) as usize };
    let alpha_at = |j: usize| -> Vec<(f64, f64)> { (0..k).map(|q| (0.3 + 2.5 * u(10 + 7 * j + q) + 0.9 * q as f64, 0.4 * u(20 + 5 * j + q))).collect() };
    let alphas: Vec<Vec<(f64, f64)>> = (0..1 + (us[4] % 3) as usize).map(alpha_at).collect();
    let y = (0..s).map(|col| (0..n).map(|i| (10.0 * u(30 + 13 * col + 2 * i) - 5.0, 10.0 * u(31 + 13 * col + 2 * i) - 5.0)).collect()).collect();
    let w = match us[5] % 4 {
        0 | 1 => None,
        // real positive weights
        2 => Some((0..n).map(|i| (10f64.powf(2.0 * u(40 + i) - 1.0), 0.0)).collect()),
        // genuinely complex weights (a diagonal W with phases)
        _ => Some((0..n).map(|i| {
            let (r, ph) = (10f64.powf(2.0 * u(40 + i) - 1.0), 6.28 * u(50 + i));
            (r * ph.cos(), r * ph.sin())
        }).collect()),
    };
    let eps = match us[6] % 4 {
        0 => Some(10f64.powf(-10.0 + 6.0 * u(60))),
        _ => None,
    };
    CplxCase { n, k, offset, alphas, y, w, eps, mrhs: s > 1 || us[7] % 2 == 0, par: us[8] % 2 == 0 }
}

impl CplxCase {
    fn m(&self) -> usize {
        self.k + self.offset as usize
    }
    fn x(&self, i: usize) -> f64 {
        0.35 * i as f64
    }
    /// basis matrix and derivative matrices from the closed form (not from the library)
    fn phi(&self, alpha: &[C]) -> DMatrix<C> {
        DMatrix::from_fn(self.n, self.m(), |i, j| if j < self.k { (C::i() * alpha[j] * self.x(i)).exp() } else { C::new(1.0, 0.0) })
    }
    fn dphi(&self, alpha: &[C], k: usize) -> DMatrix<C> {
        DMatrix::from_fn(self.n, self.m(), |i, j| if j == k { C::i() * self.x(i) * (C::i() * alpha[j] * self.x(i)).exp() } else { C::new(0.0, 0.0) })
    }
    fn model(&self) -> Result<varpro::model::SeparableModel<C>, String> {
        let names: Vec<String> = (0..self.k).map(|q| format!("w{q}")).collect();
        let mut b = SeparableModelBuilder::<C>::new(names.iter().map(|s| s.as_str()));
        for name in names.iter() {
            b = b
                .function([name.as_str()], |x: &DVector<C>, w: C| x.map(|xi| (C::i() * w * xi).exp()))
                .partial_deriv(name.as_str(), |x: &DVector<C>, w: C| x.map(|xi| C::i() * xi * (C::i() * w * xi).exp()));
        }
        if self.offset {
            b = b.invariant_function(|x: &DVector<C>| x.map(|_| C::new(1.0, 0.0)));
        }
        b.independent_variable(DVector::from_fn(self.n, |i, _| C::new(self.x(i), 0.0)))
            .initial_parameters(self.alphas[0].iter().map(|v| c(*v)).collect())
            .build()
            .map_err(|e| format!("complex model builder: {e:?}"))
    }
}

/// real embedding of a complex matrix: [Re, -Im; Im, Re]
fn embed(a: &DMatrix<C>) -> Mat {
    let (r, cc) = a.shape();
    Mat::from_fn(2 * r, 2 * cc, |i, j| {
        let z = a[(i % r, j % cc)];
        match (i < r, j < cc) {
            (true, true) | (false, false) => z.re,
            (true, false) => -z.im,
            (false, true) => z.im,
        }
    })
}
/// real embedding of complex columns: [Re; Im]
fn stack(b: &DMatrix<C>) -> Mat {
    let (r, cc) = b.shape();
    Mat::from_fn(2 * r, cc, |i, j| if i < r { b[(i, j)].re } else { b[(i - r, j)].im })
}

/// what one state of a complex problem reports
struct State {
    params: DVector<C>,
    coeffs: Option<DMatrix<C>>,
    residuals: Option<DVector<C>>,
    jacobian: Option<DMatrix<C>>,
    wdata: DMatrix<C>,
}

macro_rules! drive_problem {
    ($case:expr, $builder:expr, $obs:expr) => {{
        let case: &CplxCase = $case;
        let mut b = $builder.observations($obs);
        if let Some(w) = &case.w {
            b = b.weights(DVector::from_iterator(case.n, w.iter().map(|v| c(*v))));
        }
        if let Some(e) = case.eps {
            b = b.epsilon(e);
        }
        let mut p = b.build().map_err(|e| Fail::new("build", format!("complex problem: {e:?}")))?;
        let mut states = vec![];
        for (j, a) in case.alphas.iter().enumerate() {
            if j > 0 {
                p.set_params(&DVector::from_iterator(case.k, a.iter().map(|v| c(*v))));
            }
            states.push(State {
                params: p.params(),
                coeffs: p.linear_coefficients().map(|m| {
                    let (r, cc) = m.shape();
                    DMatrix::from_iterator(r, cc, m.iter().cloned())
                }),
                residuals: p.residuals(),
                jacobian: p.jacobian(),
                wdata: {
                    let m = p.weighted_data();
                    let (r, cc) = m.shape();
                    DMatrix::from_iterator(r, cc, m.iter().cloned())
                },
            });
        }
        states
    }};
}

fn states_of(case: &CplxCase) -> Result<Vec<State>, Fail> {
    let model = case.model().map_err(|e| Fail::new("build", e))?;
    let s = case.y.len();
    let ymat = DMatrix::from_fn(case.n, s, |i, j| c(case.y[j][i]));
    let yvec = DVector::from_fn(case.n, |i, _| c(case.y[0][i]));
    Ok(match (case.mrhs, case.par) {
        (false, false) => drive_problem!(case, LevMarProblemBuilder::new(model), yvec),
        (false, true) => drive_problem!(case, LevMarProblemBuilder::new_parallel(model), yvec),
        (true, false) => drive_problem!(case, LevMarProblemBuilder::mrhs(model), ymat),
        (true, true) => drive_problem!(case, LevMarProblemBuilder::mrhs_parallel(model), ymat),
    })
}

/// which property's claims are judged
#[derive(Clone, Copy, PartialEq, Eq)]
pub enum Claim {
    Coefficients,
    Residuals,
    Jacobian,
}

pub fn check(case: &CplxCase, claim: Claim, out: &mut Outcome) -> Result<(), Fail> {
    let states = states_of(case)?;
    let (n, m, s) = (case.n, case.m(), case.y.len());
    let u = f64::EPSILON;
    // the factor of the real checks times 16: complex arithmetic costs ~4 roundings per operation and
    // nalgebra's complex SVD was seen to leave normal-equation residuals of ~1.3 x the real bound
    // (silence seed 25); the seeded and genuine complex defects are off by 1e9 x this bound
    let kf = 4096.0 * (2 * n + 2 * m) as f64;
    let eps = case.eps.unwrap_or(f64::EPSILON);
    let wv: Vec<C> = match &case.w {
        Some(w) => w.iter().map(|v| c(*v)).collect(),
        None => vec![C::new(1.0, 0.0); n],
    };
    let y = DMatrix::from_fn(n, s, |i, j| c(case.y[j][i]));
    let b = DMatrix::from_fn(n, s, |i, j| wv[i] * y[(i, j)]);
    out.class(format!("complex:{}", if case.w.is_none() { "unweighted" } else if case.w.as_ref().unwrap().iter().all(|v| v.1 == 0.0) { "real-weights" } else { "complex-weights" }));
    for (j, st) in states.iter().enumerate() {
        let tag = if j == 0 { "complex model, construction".to_string() } else { format!("complex model, caller update {j}") };
        let alpha: Vec<C> = case.alphas[j].iter().map(|v| c(*v)).collect();
        if st.params.iter().zip(&alpha).any(|(a, b)| a != b) {
            return Err(Fail::new("c02.complex.params", format!("{tag}: params() = {:?}, applied {alpha:?}", st.params.as_slice())));
        }
        let phi = case.phi(&alpha);
        let a = DMatrix::from_fn(n, m, |i, q| wv[i] * phi[(i, q)]);
        let (Some(cf), Some(res)) = (&st.coeffs, &st.residuals) else {
            return Err(Fail::new("c01.complex.absent", format!("{tag}: the model evaluates to a finite matrix, but coefficients/residuals are absent")));
        };
        if cf.shape() != (m, s) || res.len() != n * s {
            return Err(Fail::new("c01.complex.shape", format!("{tag}: coefficients {:?}, residuals {}", cf.shape(), res.len())));
        }
        // weighted data
        if claim == Claim::Residuals {
            for i in 0..n {
                for col in 0..s {
                    if (st.wdata[(i, col)] - b[(i, col)]).norm() > 4.0 * u * b[(i, col)].norm() {
                        return Err(Fail::new("c02.complex.weighted_data", format!("{tag}: weighted_data[{i},{col}] = {}, W*Y = {}", st.wdata[(i, col)], b[(i, col)])));
                    }
                }
            }
            // residual identity, componentwise
            let ac = &a * cf;
            for col in 0..s {
                for i in 0..n {
                    let want = b[(i, col)] - ac[(i, col)];
                    let scale = b[(i, col)].norm() + (0..m).map(|q| a[(i, q)].norm() * cf[(q, col)].norm()).sum::<f64>();
                    let got = res[i + col * n];
                    if (got - want).norm() > kf * u * scale {
                        return Err(Fail::new("c02.complex.residual_identity", format!("{tag}: residual[{i} + {col}*N] = {got}, but (W Y - W Phi C)[{i},{col}] = {want}")));
                    }
                }
            }
        }
        // rank class from the embedding
        let ah = embed(&a);
        let sv = svd(&ah);
        let (smax, smin) = (sv.smax(), sv.smin());
        let clear_full = smin > 100.0 * eps.max(kf * u * smax);
        if !clear_full {
            out.skip("complex:not-clearly-full-rank");
            continue;
        }
        let kappa = smax / smin;
        let bh = stack(&b);
        let ch = stack(cf);
        if claim == Claim::Coefficients {
            // reference pipeline (as for the real checks, DESIGN 10.3): nalgebra's own SVD and solve on
            // the same complex matrix — its rare inaccurate decompositions (seen: a normal-equation
            // residual of 3e8 u on a 5x2 complex matrix of condition 1.2, silence seed 12006) widen the
            // bound by what the decomposition delivers on this very matrix
            let ch_ref: Option<Mat> = {
                let kdim = n.min(m).max(1);
                match nalgebra::linalg::SVD::try_new_unordered(a.clone(), true, true, 5.0 * f64::EPSILON, 1000 * kdim) {
                    Some(mut rs) if rs.singular_values.iter().all(|v| v.is_finite()) => {
                        rs.sort_by_singular_values();
                        rs.solve(&b, eps).ok().map(|c| stack(&c))
                    }
                    _ => None,
                }
            };
            // normal equations of the embedded real problem, column by column
            for col in 0..s {
                let r: Vec<f64> = {
                    let ac = ah.mul(&Mat::col_vec(ch.col(col)));
                    bh.col(col).iter().zip(&ac.d).map(|(x, y)| x - y).collect()
                };
                let g = ah.t().mul(&Mat::col_vec(&r));
                let ref_g = ch_ref.as_ref().map(|cr| {
                    let ac = ah.mul(&Mat::col_vec(cr.col(col)));
                    let r: Vec<f64> = bh.col(col).iter().zip(&ac.d).map(|(x, y)| x - y).collect();
                    norm2(&ah.t().mul(&Mat::col_vec(&r)).d)
                }).unwrap_or(0.0);
                let bound = (kf * u * smax * (norm2(bh.col(col)) + smax * norm2(ch.col(col)))).max(4.0 * ref_g);
                if !(norm2(&g.d) <= bound) {
                    return Err(Fail::new("c01.complex.normal_equations", format!("{tag}: column {col}: |A^H (b - A c)| = {:e} exceeds {bound:e} (|A| = {smax:e}, kappa = {kappa:e}): the coefficients do not minimise |W (y - Phi c)| for a complex model", norm2(&g.d))));
                }
                // forward comparison with the oracle's pseudo-inverse when well conditioned
                if kf * u * kappa <= 1e-3 {
                    let co = sv.solve_rank(&Mat::col_vec(bh.col(col)), 2 * m);
                    let d: Vec<f64> = co.d.iter().zip(ch.col(col)).map(|(x, y)| x - y).collect();
                    let ref_d = ch_ref.as_ref().map(|cr| norm2(&co.d.iter().zip(cr.col(col)).map(|(x, y)| x - y).collect::<Vec<f64>>())).unwrap_or(0.0);
                    let bound = (16.0 * kf * u * kappa * (norm2(&co.d) + norm2(bh.col(col)) / smin)).max(4.0 * ref_d);
                    if !(norm2(&d) <= bound) {
                        return Err(Fail::new("c01.complex.forward", format!("{tag}: column {col}: coefficients differ from the least-squares solution by {:e} (bound {bound:e})", norm2(&d))));
                    }
                }
            }
        }
        if claim == Claim::Jacobian {
            let Some(jac) = &st.jacobian else {
                return Err(Fail::new("c03.complex.absent", format!("{tag}: state present and derivatives evaluate, but jacobian() is None")));
            };
            if jac.shape() != (n * s, case.k) {
                return Err(Fail::new("c03.complex.shape", format!("{tag}: Jacobian is {:?}, expected {}x{}", jac.shape(), n * s, case.k)));
            }
            // reference pipeline for the projector: U of nalgebra's own SVD of the same matrix
            let u_ref: Option<DMatrix<C>> = {
                let kdim = n.min(m).max(1);
                match nalgebra::linalg::SVD::try_new_unordered(a.clone(), true, true, 5.0 * f64::EPSILON, 1000 * kdim) {
                    Some(mut rs) if rs.singular_values.iter().all(|v| v.is_finite()) => {
                        rs.sort_by_singular_values();
                        rs.u
                    }
                    _ => None,
                }
            };
            for k in 0..case.k {
                let dk = case.dphi(&alpha, k);
                let v = DMatrix::from_fn(n, s, |i, col| wv[i] * (0..m).map(|q| dk[(i, q)] * cf[(q, col)]).sum::<C>());
                let jk = DMatrix::from_fn(n, s, |i, col| jac[(i + col * n, k)]);
                let (vh, jh) = (stack(&v), stack(&jk));
                let jh_ref: Option<Mat> = u_ref.as_ref().map(|ur| stack(&(ur * (ur.adjoint() * &v) - &v)));
                for col in 0..s {
                    let vn = norm2(vh.col(col));
                    // (a) every column is orthogonal to the range of W Phi (complex inner product)
                    let g = ah.t().mul(&Mat::col_vec(jh.col(col)));
                    let ref_a = jh_ref.as_ref().map(|jr| norm2(&ah.t().mul(&Mat::col_vec(jr.col(col))).d)).unwrap_or(0.0);
                    let bound = (kf * u * smax * vn).max(4.0 * ref_a);
                    if !(norm2(&g.d) <= bound) {
                        return Err(Fail::new("c03.complex.orthogonal_to_range", format!("{tag}: Jacobian column {k}, block {col}: |A^H J_k| = {:e} > {bound:e} (|A| = {smax:e}, |W D_k c| = {vn:e}): for a complex model the column is not orthogonal to the range of W Phi", norm2(&g.d))));
                    }
                    // (c) J_k = -(I - P) W D_k c with P the orthogonal projector onto range(W Phi)
                    if kf * u * kappa <= 1e-3 {
                        let vm = Mat::col_vec(vh.col(col));
                        let want = sv.project_range(&vm, 2 * m).sub(&vm);
                        let d: Vec<f64> = want.d.iter().zip(jh.col(col)).map(|(x, y)| x - y).collect();
                        let ref_c = jh_ref.as_ref().map(|jr| norm2(&want.d.iter().zip(jr.col(col)).map(|(x, y)| x - y).collect::<Vec<f64>>())).unwrap_or(0.0);
                        let bound = (16.0 * kf * u * kappa * vn).max(4.0 * ref_c);
                        if !(norm2(&d) <= bound) {
                            return Err(Fail::new("c03.complex.kaufman_formula", format!("{tag}: Jacobian column {k}, block {col}: |J_k - (-(I-P) W D_k c)| = {:e} > {bound:e}", norm2(&d))));
                        }
                    }
                }
            }
        }
        out.class("complex:state-checked");
    }
    Ok(())
}

/// for the evidence: run as part of a real-valued case
pub fn check_opt(case: &Option<CplxCase>, claim: Claim, out: &mut Outcome) -> Check {
    if let Some(c) = case {
        check(c, claim, out)?;
    }
    Ok(Outcome::default())
}

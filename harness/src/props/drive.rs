//! Shared trajectory driver: visit the state of a problem at construction, after caller
//! updates and at every parameter vector a Levenberg-Marquardt run applies (through the
//! probing wrapper).
use crate::adapt::{Prob, ProbeEv, Report};
use crate::engine::Fail;
use crate::fl;
use crate::gen::ProblemCase;
use crate::Sc;
use levenberg_marquardt::LevenbergMarquardt;
use proptest::prelude::*;
use serde::{Deserialize, Serialize};

#[derive(Clone, Debug, Serialize, Deserialize)]
pub struct LmCfg {
    pub patience: usize,
    #[serde(with = "fl::one")]
    pub ftol: f64,
    #[serde(with = "fl::one")]
    pub xtol: f64,
    #[serde(with = "fl::one")]
    pub gtol: f64,
    #[serde(with = "fl::one")]
    pub stepbound: f64,
    pub scale_diag: bool,
}

impl LmCfg {
    pub fn solver<T: Sc>(&self) -> LevenbergMarquardt<T> {
        LevenbergMarquardt::new()
            .with_ftol(T::of(self.ftol))
            .with_xtol(T::of(self.xtol))
            .with_gtol(T::of(self.gtol))
            .with_stepbound(T::of(self.stepbound))
            .with_patience(self.patience)
            .with_scale_diag(self.scale_diag)
    }
    pub fn default_like() -> LmCfg {
        LmCfg { patience: 100, ftol: -1.0, xtol: -1.0, gtol: -1.0, stepbound: 100.0, scale_diag: true }
    }
    /// negative tolerances mean "the optimizer's default (30 eps)"
    pub fn resolved<T: Sc>(&self) -> LmCfg {
        let d = 30.0 * T::unit();
        LmCfg {
            ftol: if self.ftol < 0.0 { d } else { self.ftol },
            xtol: if self.xtol < 0.0 { d } else { self.xtol },
            gtol: if self.gtol < 0.0 { d } else { self.gtol },
            ..self.clone()
        }
    }
    pub fn budget(&self, p: usize) -> usize {
        self.patience * (p + 1)
    }
}

pub fn lm_strategy(max_patience: usize) -> impl Strategy<Value = LmCfg> {
    (any::<u16>(), any::<u16>(), any::<u16>(), any::<u16>(), any::<u16>(), any::<bool>()).prop_map(move |raw| lm_from_raw(max_patience, raw))
}

/// the pure construction behind `lm_strategy`
pub fn lm_from_raw(max_patience: usize, raw: (u16, u16, u16, u16, u16, bool)) -> LmCfg {
    {
        let (pt, f, x, g, sb, sd) = raw;
        let tols = [-1.0, 0.0, 1e-8, 1e-3, 1e-1];
        let pick = crate::engine::pick;
        // small patience over-sampled
        let patience = if pt % 2 == 0 { 1 + pick(pt, 6.min(max_patience)) } else { 1 + pick(pt, max_patience) };
        LmCfg {
            patience,
            ftol: tols[pick(f, 5)],
            xtol: tols[pick(x, 5)],
            gtol: tols[pick(g, 5)],
            stepbound: 10f64.powf(-2.0 + 5.0 * (sb as f64 / 65536.0)),
            scale_diag: sd,
        }
    }
}

pub struct DriveInfo<T: Sc> {
    pub visits: usize,
    pub lm_sets: usize,
    pub lm_jacs: usize,
    pub report: Option<Report<T>>,
    pub problem: Box<dyn Prob<T>>,
}

/// visit(problem, tag, from_lm)
pub fn drive<T: Sc>(
    case: &ProblemCase,
    updates: &[Vec<f64>],
    lm: Option<&LmCfg>,
    visit: &mut dyn FnMut(&dyn Prob<T>, &str) -> Result<(), Fail>,
) -> Result<DriveInfo<T>, Fail> {
    let mut prob = case.build::<T>().map_err(|e| Fail::new("build", format!("valid inputs were rejected by the builders: {e}")))?;
    let mut visits = 0;
    visit(prob.as_ref(), "construction")?;
    visits += 1;
    for (i, u) in updates.iter().enumerate() {
        let a: Vec<T> = u.iter().map(|v| T::of(*v)).collect();
        prob.set_params(&a);
        visit(prob.as_ref(), &format!("caller update {i}"))?;
        visits += 1;
    }
    let mut lm_sets = 0;
    let mut lm_jacs = 0;
    let mut report = None;
    if let Some(cfg) = lm {
        let solver = cfg.resolved::<T>().solver::<T>();
        let mut first_fail: Option<Fail> = None;
        let (p2, rep) = {
            let mut cb = |p: &dyn Prob<T>, ev: ProbeEv, _req: &[T]| match ev {
                ProbeEv::AfterSet => {
                    lm_sets += 1;
                    if first_fail.is_none() {
                        if let Err(f) = visit(p, &format!("optimizer update {lm_sets}")) {
                            first_fail = Some(f);
                        }
                        visits += 1;
                    }
                }
                ProbeEv::Jacobian => lm_jacs += 1,
                ProbeEv::Residuals | ProbeEv::BeforeSet => {}
            };
            prob.minimize_probed(&solver, &mut cb)
        };
        if let Some(f) = first_fail {
            return Err(f);
        }
        prob = p2;
        report = Some(rep);
        visit(prob.as_ref(), "after optimizer")?;
        visits += 1;
    }
    Ok(DriveInfo { visits, lm_sets, lm_jacs, report, problem: prob })
}

/// a problem case plus an update history (caller-driven and/or optimizer-driven)
#[derive(Clone, Debug, Serialize, Deserialize)]
pub struct TrajCase {
    pub base: ProblemCase,
    #[serde(with = "fl::vecvec")]
    pub updates: Vec<Vec<f64>>,
    pub lm: Option<LmCfg>,
    /// second observation set and the two factors for the linearity relation of C01
    #[serde(with = "fl::vecvec")]
    pub y2: Vec<Vec<f64>>,
    #[serde(with = "fl::one")]
    pub ca: f64,
    #[serde(with = "fl::one")]
    pub cb: f64,
    /// a complex-valued problem checked along with the real one (1 of 8 cases; see props/cplx.rs)
    #[serde(default)]
    pub cplx: Option<super::cplx::CplxCase>,
}

pub fn traj_strategy(cfg: crate::gen::CaseCfg, max_updates: usize, lm_16: u16) -> impl Strategy<Value = TrajCase> {
    (
        crate::gen::case_strategy(cfg),
        proptest::collection::vec(proptest::collection::vec(any::<u16>(), 8), 0..=max_updates),
        lm_strategy(12),
        any::<u16>(),
        proptest::collection::vec(-5.0f64..5.0, 5 * 40),
        -3.0f64..3.0,
        -3.0f64..3.0,
        proptest::collection::vec(any::<u16>(), 96),
    )
        .prop_map(move |(base, raws, lm, lmsel, ys2, ca, cb, cus)| {
            let updates = crate::gen::alpha_list(&base.spec, &raws);
            let n = base.n();
            let y2 = (0..base.s()).map(|c| (0..n).map(|i| ys2[(c * 40 + i) % ys2.len()]).collect()).collect();
            let cplx = if cus[95] % 8 == 0 { Some(super::cplx::cplx_from_raw(&cus)) } else { None };
            TrajCase { base, updates, lm: if crate::engine::pick(lmsel, 16) < lm_16 as usize { Some(lm) } else { None }, y2, ca, cb, cplx }
        })
}

//! One module per property, plus shared oracles and drivers.
pub mod drive;
pub mod oracles;

pub mod c01;

use crate::engine::DynProperty;

pub fn registry() -> Vec<Box<dyn DynProperty>> {
    vec![Box::new(c01::C01)]
}

//! One module per property, plus shared oracles and drivers.
pub mod bprog;
pub mod clones;
pub mod cplx;
pub mod drive;
pub mod oracles;

pub mod c01;
pub mod c02;
pub mod c03;
pub mod c04;
pub mod c05;
pub mod c06;
pub mod c07;
pub mod c08;
pub mod c09;
pub mod c10;
pub mod c11;
pub mod c12;
pub mod c13;
pub mod c14;
pub mod c15;
pub mod c16;
pub mod c17;
pub mod c18;
pub mod c19;

use crate::engine::DynProperty;

pub fn registry() -> Vec<Box<dyn DynProperty>> {
    vec![Box::new(c01::C01), Box::new(c02::C02), Box::new(c03::C03), Box::new(c04::C04), Box::new(c05::C05), Box::new(c06::C06), Box::new(c07::C07), Box::new(c08::C08), Box::new(c09::C09), Box::new(c10::C10), Box::new(c11::C11), Box::new(c12::C12), Box::new(c13::C13), Box::new(c14::C14), Box::new(c15::C15), Box::new(c16::C16), Box::new(c17::C17), Box::new(c18::C18), Box::new(c19::C19)]
}

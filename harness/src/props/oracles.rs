//! Oracles shared by several properties: the linear least-squares predicates of C01, the
//! residual identity of C02, the Kaufman-Jacobian characterisation of C03.
use crate::adapt::Prob;
use crate::engine::Fail;
use crate::oracle::linalg::{norm2, svd, Mat, Svd};
use crate::Sc;
use nalgebra::DMatrix;

#[derive(Clone, Copy, Debug, PartialEq, Eq)]
pub enum RankClass {
    ClearFull,
    ClearDeficient,
    Ambiguous,
}

/// the linear-algebra view of a problem state at the parameters currently in effect
pub struct Lin {
    pub n: usize,
    pub m: usize,
    pub s: usize,
    /// unit roundoff of the scalar type under test
    pub ut: f64,
    /// smallest positive normal number of the scalar type under test (absolute slack for
    /// results in the subnormal range)
    pub tiny: f64,
    /// largest finite value of the scalar type under test
    pub huge: f64,
    /// threshold as the code uses it: |eps| rounded to T, or machine epsilon of T
    pub eps: f64,
    /// weights (ones if none)
    pub w: Vec<f64>,
    /// A = W * Phi (model's own Phi, f64)
    pub a: Mat,
    /// unweighted Phi
    pub phi: Mat,
    /// B = the problem's weighted data
    pub b: Mat,
    pub svd: Svd,
    /// perturbation allowance for computed singular values: K u_T sigma_max
    pub delta: f64,
    /// number of singular values that are kept for sure (> eps + delta)
    pub sure_kept: usize,
    /// number of singular values that are not dropped for sure (> eps - delta)
    pub maybe_kept: usize,
    pub class: RankClass,
    /// reference pipeline (harness code, nalgebra's SVD in the scalar type under test):
    /// solve(svd(W∘Phi), W∘Y, eps) — used to calibrate tolerances by the accuracy the
    /// chosen decomposition actually delivers on this matrix
    pub c_ref: Option<Mat>,
    /// left singular vectors of the reference decomposition
    pub u_ref: Option<Mat>,
}

pub fn kfactor(n: usize, m: usize) -> f64 {
    // 256 (N+M): a legitimate but less stable way of forming the coefficients (explicit
    // pseudo-inverse times data) was measured to exceed 64 (N+M) u by 10 % in rare cases
    256.0 * (n + m) as f64
}

/// factor for forward comparisons with the oracle (results of nalgebra's SVD-based solve
/// were measured to deviate by up to ~2000 u from the exactly rounded truncated solution
/// when small singular values are present, independent of their size)
pub fn kforward(n: usize, m: usize) -> f64 {
    4096.0 * (n + m) as f64
}

/// forward comparisons are only made when their bound is at most this fraction of the scale
pub const FORWARD_GATE: f64 = 0.05;

pub fn effective_eps<T: Sc>(eps: Option<f64>) -> f64 {
    match eps {
        Some(e) => T::of(e).f().abs(),
        None => T::unit(),
    }
}

impl Lin {
    /// None if the model does not evaluate or Phi is not finite
    pub fn new<T: Sc>(prob: &dyn Prob<T>, eps: f64) -> Result<Lin, String> {
        let phi_t: DMatrix<T> = prob.phi()?;
        let phi = Mat::from_na(&phi_t);
        let sh = prob.shape();
        let w: Vec<f64> = match prob.weights_vec() {
            Some(w) => w.iter().map(|v| v.f()).collect(),
            None => vec![1.0; sh.n],
        };
        let a = phi.row_scale(&w);
        if !a.all_finite() {
            return Err("weighted basis matrix is not finite".into());
        }
        let b = Mat::from_na(&prob.wdata());
        let sv = svd(&a);
        let ut = T::unit();
        let delta = kfactor(sh.n, sh.m) * ut * sv.smax();
        let sure_kept = sv.s.iter().filter(|&&x| x > eps + delta).count();
        let maybe_kept = sv.s.iter().filter(|&&x| x + delta > eps).count();
        let big = 100.0 * eps.max(delta);
        let class = if sh.n >= sh.m && sv.s.len() == sh.m && sv.smin() > big {
            RankClass::ClearFull
        } else if sv.s.iter().all(|&x| x > big || (x < eps / 100.0 && delta <= eps / 100.0)) && sure_kept == maybe_kept {
            RankClass::ClearDeficient
        } else {
            RankClass::Ambiguous
        };
        // reference pipeline in T
        let (c_ref, u_ref) = {
            let wt: Option<Vec<T>> = prob.weights_vec();
            let mut a_t = phi_t.clone();
            if let Some(wt) = &wt {
                for j in 0..a_t.ncols() {
                    for i in 0..a_t.nrows() {
                        a_t[(i, j)] = wt[i] * a_t[(i, j)];
                    }
                }
            }
            let b_t = prob.wdata();
            // like the code under test after its repair: bounded iterations, no panicking sort on
            // NaN (nalgebra's svd() panics or hangs on matrices with an extreme dynamic range)
            let kdim = a_t.nrows().min(a_t.ncols()).max(1);
            let conv = T::of(5.0) * num_traits::Float::epsilon();
            match nalgebra::linalg::SVD::try_new_unordered(a_t, true, true, conv, 1000 * kdim) {
                Some(mut rs) if rs.singular_values.iter().all(|s| s.f().is_finite()) => {
                    rs.sort_by_singular_values();
                    let c = rs.solve(&b_t, T::of(eps)).ok().map(|c| Mat::from_na(&c));
                    let u = rs.u.as_ref().map(Mat::from_na);
                    (c, u)
                }
                _ => (None, None),
            }
        };
        Ok(Lin { n: sh.n, m: sh.m, s: sh.s, ut, tiny: T::min_positive_value().f(), huge: T::huge(), eps, w, a, phi, b, svd: sv, delta, sure_kept, maybe_kept, class, c_ref, u_ref })
    }

    pub fn k(&self) -> f64 {
        kfactor(self.n, self.m)
    }
    pub fn kf(&self) -> f64 {
        kforward(self.n, self.m)
    }

    /// condition number of the kept part (sigma_max / smallest sure-kept sigma)
    pub fn kappa_kept(&self) -> f64 {
        if self.sure_kept == 0 {
            return 1.0;
        }
        self.svd.smax() / self.svd.s[self.sure_kept - 1]
    }

    /// C01 predicates on reported coefficients c (m x s). Returns the list of skipped
    /// (gated) sub-checks.
    pub fn check_coeffs(&self, c: &Mat, tag: &str) -> Result<Vec<String>, Fail> {
        let mut skipped = vec![];
        if (c.r, c.c) != (self.m, self.s) {
            return Err(Fail::new("c01.shape", format!("{tag}: coefficient matrix is {}x{}, expected {}x{}", c.r, c.c, self.m, self.s)));
        }
        let k = self.k();
        let bnorm_max = (0..self.s).map(|j| norm2(self.b.col(j))).fold(0.0, f64::max);
        // finiteness
        // ||c|| <= sqrt(M) ||b|| / eps: representable with a wide margin in the type under test
        let overflow_guard = if self.ut > 1e-10 { 1e28 } else { 1e250 };
        if self.eps > 0.0 && self.b.all_finite() && bnorm_max / self.eps < overflow_guard {
            if !c.all_finite() {
                return Err(Fail::new("c01.finite", format!("{tag}: coefficients are not finite although data and threshold are tame")));
            }
        } else if !c.all_finite() {
            skipped.push("c01.all:nonfinite-coefficients-with-zero-threshold".into());
            return Ok(skipped);
        }
        if !self.b.all_finite() {
            skipped.push("c01.all:nonfinite-data".into());
            return Ok(skipped);
        }
        let smax = self.svd.smax();
        let r = self.b.sub(&self.a.mul(c));
        let g = self.a.t().mul(&r);
        if !r.all_finite() || !g.all_finite() || !(smax * smax).is_finite() {
            // entries so large that the oracle's own f64 arithmetic overflows: no verdict
            skipped.push("c01.all:oracle-arithmetic-overflows".into());
            return Ok(skipped);
        }
        // the reference pipeline's own backward error, column by column
        let g_ref: Option<Mat> = self.c_ref.as_ref().filter(|c| c.all_finite() && (c.r, c.c) == (self.m, self.s)).map(|cr| self.a.t().mul(&self.b.sub(&self.a.mul(cr))));
        for col in 0..self.s {
            let cn = norm2(c.col(col));
            let bn = norm2(self.b.col(col));
            let rn = norm2(r.col(col));
            let gn = norm2(g.col(col));
            // (1) truncated normal equations: components along dropped directions contribute at
            // most (eps+delta) |r| each, kept directions only rounding
            let dropped_allow = if self.class == RankClass::ClearFull { 0.0 } else { (self.eps + self.delta) * rn * (self.m as f64).sqrt() };
            let ref_allow = g_ref.as_ref().map(|g| 4.0 * norm2(g.col(col))).unwrap_or(0.0);
            // absolute slack for quantities in the subnormal range of the scalar type under test
            let csum: f64 = c.col(col).iter().map(|v| v.abs()).sum();
            let slack = smax * (self.n as f64) * self.tiny * (1.0 + smax + self.ut * csum) + (self.n as f64) * self.tiny * self.ut * rn;
            // a forward-stable but not backward-stable method (e.g. explicit pseudo-inverse times
            // data) leaves a normal-equation residual proportional to the condition number of
            // the kept part: accept that as well (it coincides with the backward bound for
            // well-conditioned matrices, where the sensitivity of this check lies)
            let s_low = if self.maybe_kept == 0 { smax } else { (self.svd.s[self.maybe_kept - 1] - self.delta).max(self.eps).max(f64::MIN_POSITIVE) };
            let forward_stable = k * self.ut * smax * (smax / s_low) * bn;
            let bound = (k * self.ut * smax * (bn + smax * cn) + dropped_allow + slack).max(forward_stable).max(ref_allow);
            if !(gn <= bound) {
                return Err(Fail::new(
                    "c01.normal_equations",
                    format!("{tag}: column {col}: |A^T(b - A c)| = {gn:e} exceeds {bound:e} (|A|={smax:e}, |b|={bn:e}, |c|={cn:e}, class {:?}, sigma={:?}, eps={:e})", self.class, self.svd.s, self.eps),
                ));
            }
        }
        match self.class {
            RankClass::ClearFull | RankClass::ClearDeficient => {
                let kept = self.sure_kept;
                if kept == 0 {
                    // everything truncated: the minimum-norm minimiser is exactly zero
                    if c.max_abs() != 0.0 {
                        return Err(Fail::new("c01.min_norm", format!("{tag}: all singular values are below the threshold but coefficients are not zero: {:?}", c.d)));
                    }
                    return Ok(skipped);
                }
                let kappa = self.kappa_kept();
                let sk = self.svd.s[kept - 1];
                let kf = self.kf();
                if kf * self.ut * kappa > FORWARD_GATE {
                    skipped.push("c01.forward:kappa-gate".into());
                    if self.class == RankClass::ClearDeficient {
                        skipped.push("c01.min_norm:kappa-gate".into());
                    }
                    return Ok(skipped);
                }
                // (2) minimum norm: no component in the numerical null space
                if self.class == RankClass::ClearDeficient {
                    for col in 0..self.s {
                        let cn = norm2(c.col(col));
                        let mut null2 = 0.0;
                        for j in kept..self.svd.s.len() {
                            let d = crate::oracle::linalg::dot(self.svd.v.col(j), c.col(col));
                            null2 += d * d;
                        }
                        // directions beyond the thin SVD (n < m) are covered by the forward check
                        let nullc = null2.sqrt();
                        let ref_null = self
                            .c_ref
                            .as_ref()
                            .map(|cr| {
                                let mut n2 = 0.0;
                                for j in kept..self.svd.s.len() {
                                    let d = crate::oracle::linalg::dot(self.svd.v.col(j), cr.col(col));
                                    n2 += d * d;
                                }
                                4.0 * n2.sqrt()
                            })
                            .unwrap_or(0.0);
                        let bound = (kf * self.ut * kappa * cn + self.m as f64 * self.tiny).max(ref_null);
                        if !(nullc <= bound) {
                            return Err(Fail::new(
                                "c01.min_norm",
                                format!("{tag}: column {col}: component of c in the null space of the truncated matrix is {nullc:e} > {bound:e} (|c|={cn:e}, sigma={:?}, eps={:e})", self.svd.s, self.eps),
                            ));
                        }
                    }
                }
                // (3) forward comparison with the oracle's truncated pseudo-inverse
                let co = self.svd.solve_rank(&self.b, kept);
                for col in 0..self.s {
                    let bn = norm2(self.b.col(col));
                    let cn = norm2(co.col(col));
                    let diff: Vec<f64> = c.col(col).iter().zip(co.col(col)).map(|(x, y)| x - y).collect();
                    let dn = norm2(&diff);
                    let ref_dev = self
                        .c_ref
                        .as_ref()
                        .map(|cr| 4.0 * norm2(&cr.col(col).iter().zip(co.col(col)).map(|(x, y)| x - y).collect::<Vec<f64>>()))
                        .unwrap_or(0.0);
                    let bound = (kf * self.ut * kappa * (cn + bn / sk) + self.m as f64 * self.tiny * (1.0 + 1.0 / sk)).max(ref_dev);
                    if !(dn <= bound) {
                        return Err(Fail::new(
                            "c01.forward",
                            format!("{tag}: column {col}: |c - c_oracle| = {dn:e} > {bound:e}; c = {:?}, oracle = {:?}, sigma={:?}, eps={:e}, class {:?}", c.col(col), co.col(col), self.svd.s, self.eps, self.class),
                        ));
                    }
                }
            }
            RankClass::Ambiguous => {
                skipped.push("c01.forward:ambiguous-rank".into());
            }
        }
        Ok(skipped)
    }

    /// C02: reported residual vector equals the column-major stacking of B - A*C
    pub fn check_residuals(&self, c: &Mat, res: &[f64], tag: &str) -> Result<(), Fail> {
        if res.len() != self.n * self.s {
            return Err(Fail::new("c02.len", format!("{tag}: residual vector has {} entries, expected {}", res.len(), self.n * self.s)));
        }
        if !c.all_finite() || !self.b.all_finite() {
            return Ok(());
        }
        let ac = self.a.mul(c);
        let abs_ac = self.a.abs_mul(c);
        let kc = 8.0 * (self.m as f64 + 4.0);
        for col in 0..self.s {
            for i in 0..self.n {
                let want = self.b.at(i, col) - ac.at(i, col);
                let got = res[i + col * self.n];
                // W∘Phi is rounded to T by the code: entries in the subnormal range carry an absolute
                // error of one subnormal spacing (tiny·u), which the coefficients amplify
                let csum: f64 = (0..self.m).map(|j| c.at(j, col).abs()).sum();
                // the accumulation of (W Phi) C in the scalar type under test passes through partial
                // sums of up to sum_j |A_ij||C_js|: beyond the largest finite value (seen in f32: weights
                // of 1e12, observations of 1e13 and a kept singular value of 1e5 give |A||C| = 1e38)
                // the entry is inf - inf there, whatever the exact value is
                if !((self.b.at(i, col).abs() + abs_ac.at(i, col)) * (self.m as f64 + 1.0) <= self.huge / 4.0) {
                    continue;
                }
                let bound = kc * self.ut * (self.b.at(i, col).abs() + abs_ac.at(i, col)) + kc * self.tiny * (1.0 + self.ut * csum);
                if !((got - want).abs() <= bound) {
                    return Err(Fail::new(
                        "c02.residual_identity",
                        format!("{tag}: residual[{i} + {col}*N] = {got:e}, but (W Y - W Phi C)[{i},{col}] = {want:e} (bound {bound:e})"),
                    ));
                }
            }
        }
        Ok(())
    }
}

/// C02: the problem's weighted data equal W∘Y for the observations as supplied
pub fn check_weighted_data<T: Sc>(prob: &dyn Prob<T>, y: &DMatrix<T>, w: Option<&[T]>, tag: &str) -> Result<(), Fail> {
    let wd = prob.wdata();
    if wd.shape() != y.shape() {
        return Err(Fail::new("c02.wdata_shape", format!("{tag}: weighted data is {:?}, observations {:?}", wd.shape(), y.shape())));
    }
    for j in 0..y.ncols() {
        for i in 0..y.nrows() {
            let want = match w {
                Some(w) => w[i].f() * y[(i, j)].f(),
                None => y[(i, j)].f(),
            };
            let got = wd[(i, j)].f();
            let ok = if want.is_nan() { got.is_nan() } else { (got - want).abs() <= 2.0 * T::unit() * want.abs() + 2.0 * T::min_positive_value().f() || got == want };
            if !ok {
                return Err(Fail::new("c02.weighted_data", format!("{tag}: weighted_data[{i},{j}] = {got:e}, expected w*y = {want:e}")));
            }
        }
    }
    Ok(())
}

/// the full consistency check of a present state: C01 predicates + C02 residual identity.
/// Returns skipped sub-checks.
pub fn check_state<T: Sc>(prob: &dyn Prob<T>, eps: f64, tag: &str) -> Result<(Vec<String>, Option<Lin>), Fail> {
    let c = prob.coeffs();
    let r = prob.residuals();
    match (c, r) {
        (Some(c), Some(r)) => {
            let lin = match Lin::new(prob, eps) {
                Ok(l) => l,
                Err(e) => {
                    return Err(Fail::new("state.present_without_model", format!("{tag}: coefficients and residuals are present but {e}")));
                }
            };
            let cm = Mat::from_na(&c);
            let skipped = lin.check_coeffs(&cm, tag)?;
            let rv: Vec<f64> = r.iter().map(|v| v.f()).collect();
            lin.check_residuals(&cm, &rv, tag)?;
            Ok((skipped, Some(lin)))
        }
        (None, None) => Ok((vec!["state:absent".into()], None)),
        (c, r) => Err(Fail::new(
            "state.half_present",
            format!("{tag}: coefficients present = {}, residuals present = {} — they must come and go together", c.is_some(), r.is_some()),
        )),
    }
}

/// derivative matrices of the model, weighted: V_k = W∘(D_k C)  (n x s)
pub fn weighted_dkc<T: Sc>(prob: &dyn Prob<T>, lin: &Lin, c: &Mat, k: usize) -> Result<Mat, String> {
    let dk = Mat::from_na(&prob.dphi(k)?);
    Ok(dk.row_scale(&lin.w).mul(c))
}

/// C03 (a),(b),(c): column k of the reported Jacobian against the oracle, full-rank premise.
pub fn check_jacobian<T: Sc>(prob: &dyn Prob<T>, lin: &Lin, c: &Mat, jac: &DMatrix<T>, tag: &str) -> Result<Vec<String>, Fail> {
    let mut skipped = vec![];
    let sh = prob.shape();
    if jac.nrows() != sh.n * sh.s || jac.ncols() != sh.p {
        return Err(Fail::new("c03.shape", format!("{tag}: Jacobian is {}x{}, expected {}x{}", jac.nrows(), jac.ncols(), sh.n * sh.s, sh.p)));
    }
    // premise of C03: W∘Phi has full column rank. That is a statement about the matrix, not about
    // the truncation threshold: with singular values at or below the threshold (but well above the
    // rounding level of the scalar type) the coefficients are the truncated ones, and the property
    // still defines column k as -(I-P) W D_k C with P the projector onto the whole range.
    let smax = lin.svd.smax();
    let smin = lin.svd.smin();
    let numerically_full = lin.n >= lin.m && smax > 0.0 && smin > 100.0 * lin.k() * lin.ut * smax;
    if !numerically_full {
        skipped.push("c03:not-numerically-full-column-rank".into());
        return Ok(skipped);
    }
    if lin.class != RankClass::ClearFull {
        skipped.push("c03:full-rank-with-truncated-singular-values(checked)".into());
    }
    let kf = lin.k();
    let kfw = lin.kf();
    let kappa = smax / smin;
    let gate_ok = kfw * lin.ut * kappa <= FORWARD_GATE;
    if !gate_ok {
        skipped.push("c03.bc:kappa-gate".into());
    }
    for k in 0..sh.p {
        let v = match weighted_dkc(prob, lin, c, k) {
            Ok(v) => v,
            Err(e) => return Err(Fail::new("c03.deriv_failed", format!("{tag}: Jacobian present but derivative {k} fails: {e}"))),
        };
        if !v.all_finite() {
            skipped.push("c03:nonfinite-derivative".into());
            continue;
        }
        // the formula's own intermediates W∘D_k and (W∘D_k)·C must be representable in the scalar
        // type under test: an f32 problem whose weighted derivative exceeds f32::MAX (seen: entries
        // of 1e38 times a weight of 950) cannot deliver the finite column the f64 oracle computes
        if let Ok(dk) = prob.dphi(k) {
            let wd = Mat::from_na(&dk).row_scale(&lin.w);
            let abs_wd = Mat::from_fn(wd.r, wd.c, |i, j| wd.at(i, j).abs());
            let abs_c = Mat::from_fn(c.r, c.c, |i, j| c.at(i, j).abs());
            let big = abs_wd.d.iter().chain(abs_wd.mul(&abs_c).d.iter()).fold(0.0f64, |a, b| a.max(*b));
            if !(big * (sh.n as f64) <= T::huge() / 4.0) {
                skipped.push("c03:beyond-range-of-scalar-type".into());
                continue;
            }
        }
        // reported column k, reshaped to n x s (block s of the column belongs to rhs s)
        let jk = Mat::from_fn(sh.n, sh.s, |i, s| jac[(i + s * sh.n, k)].f());
        let pv = lin.svd.project_range(&v, lin.m);
        let want = pv.sub(&v); // -(I-P) v
        // the same formula evaluated with the reference decomposition's U (calibration of
        // the tolerances by what the chosen decomposition delivers on this matrix)
        let j_ref: Option<Mat> = lin.u_ref.as_ref().map(|u| u.mul(&u.t().mul(&v)).sub(&v));
        for s in 0..sh.s {
            let vn = norm2(v.col(s));
            // (a) orthogonality to range(A), kappa free
            let atj = lin.a.t().mul(&Mat::col_vec(jk.col(s)));
            let an = norm2(&atj.d);
            let ref_a = j_ref.as_ref().map(|j| 4.0 * norm2(&lin.a.t().mul(&Mat::col_vec(j.col(s))).d)).unwrap_or(0.0);
            // absolute slack: entries of J in the subnormal range of T carry an absolute error of ~tiny
            let slack = (sh.n as f64) * lin.tiny;
            // entries of W∘Phi in the subnormal range of the scalar type are stored with an absolute error
            // of tiny·u, i.e. a RELATIVE error of the matrix of up to n·tiny/smax (seen in f32: a
            // Gaussian 30 widths from its centre, A ~ 1e-39): the singular vectors inherit it
            let sub = (sh.n as f64) * lin.tiny / smax;
            let bound_a = (kf * lin.ut * smax * vn + smax * slack + sub * smax * vn).max(ref_a);
            if !(an <= bound_a) {
                return Err(Fail::new(
                    "c03.orthogonal_to_range",
                    format!("{tag}: Jacobian column {k}, block {s}: |A^T J_k| = {an:e} > {bound_a:e} (|A|={smax:e}, |W D_k c|={vn:e})"),
                ));
            }
            if gate_ok {
                // (b) J_k + v lies in range(A)
                let sum: Vec<f64> = jk.col(s).iter().zip(v.col(s)).map(|(a, b)| a + b).collect();
                let sm = Mat::col_vec(&sum);
                let proj = lin.svd.project_range(&sm, lin.m);
                let out = norm2(&sm.sub(&proj).d);
                let ref_c = j_ref
                    .as_ref()
                    .map(|j| 4.0 * norm2(&j.col(s).iter().zip(want.col(s)).map(|(a, b)| a - b).collect::<Vec<f64>>()))
                    .unwrap_or(0.0);
                let bound_b = (kfw * lin.ut * kappa * vn + slack + sub * kappa * vn).max(ref_c);
                if !(out <= bound_b) {
                    return Err(Fail::new(
                        "c03.complement_in_range",
                        format!("{tag}: Jacobian column {k}, block {s}: |(I-P)(J_k + W D_k c)| = {out:e} > {bound_b:e}"),
                    ));
                }
                // (c) direct comparison
                let diff: Vec<f64> = jk.col(s).iter().zip(want.col(s)).map(|(a, b)| a - b).collect();
                let dn = norm2(&diff);
                if !(dn <= bound_b) {
                    return Err(Fail::new(
                        "c03.kaufman_formula",
                        format!("{tag}: Jacobian column {k}, block {s}: |J_k - (-(I-P) W D_k c)| = {dn:e} > {bound_b:e}; J = {:?}, oracle = {:?}", jk.col(s), want.col(s)),
                    ));
                }
            }
        }
    }
    Ok(skipped)
}

/// per Jacobian column k: |W D_k C|_F, the quantity the rounding error of column k is
/// relative to (J_k = P v - v cancels when v lies almost in range(A))
pub fn jacobian_scales<T: Sc>(prob: &dyn Prob<T>, lin: &Lin) -> Option<Vec<f64>> {
    let c = Mat::from_na(&prob.coeffs()?);
    let p = prob.shape().p;
    let mut out = Vec::with_capacity(p);
    for k in 0..p {
        let v = weighted_dkc(prob, lin, &c, k).ok()?;
        out.push(v.fro());
    }
    Some(out)
}

/// H = W [Phi | D_1 c | ... | D_P c] of the statistics (single right-hand side), from the
/// model's own evaluations at the problem's current parameters and coefficients
pub fn stats_h<T: Sc>(prob: &dyn Prob<T>, c: &Mat, weighted: bool) -> Result<Mat, String> {
    let sh = prob.shape();
    let phi = Mat::from_na(&prob.phi()?);
    let mut h = phi;
    for k in 0..sh.p {
        let dk = Mat::from_na(&prob.dphi(k)?);
        h = h.hcat(&dk.mul(c));
    }
    if weighted {
        if let Some(w) = prob.weights_vec() {
            let w: Vec<f64> = w.iter().map(|v| v.f()).collect();
            h = h.row_scale(&w);
        }
    }
    Ok(h)
}

//! The scalar abstraction of the harness: f32 and f64.
use varpro::statistics::numeric_traits::CastF64;

pub trait Sc:
    nalgebra::RealField
    + num_traits::Float
    + num_traits::FromPrimitive
    + CastF64
    + Copy
    + Send
    + Sync
    + std::fmt::Debug
    + 'static
{
    const NAME: &'static str;
    /// unit roundoff (half the machine epsilon is the strict definition; we use eps itself,
    /// which only makes the tolerances a factor 2 more generous)
    fn unit() -> f64;
    fn of(v: f64) -> Self;
    fn f(self) -> f64;
    fn bits(self) -> u64;
    /// largest finite value of the type, as f64
    fn huge() -> f64;
}

impl Sc for f64 {
    const NAME: &'static str = "f64";
    fn unit() -> f64 {
        f64::EPSILON
    }
    fn of(v: f64) -> Self {
        v
    }
    fn f(self) -> f64 {
        self
    }
    fn bits(self) -> u64 {
        self.to_bits()
    }
    fn huge() -> f64 {
        f64::MAX
    }
}

impl Sc for f32 {
    const NAME: &'static str = "f32";
    fn unit() -> f64 {
        f32::EPSILON as f64
    }
    fn of(v: f64) -> Self {
        v as f32
    }
    fn f(self) -> f64 {
        self as f64
    }
    fn bits(self) -> u64 {
        self.to_bits() as u64
    }
    fn huge() -> f64 {
        f32::MAX as f64
    }
}

/// NaN-aware bit equality (all NaNs are identified, +0 and -0 are different)
pub fn same_bits<T: Sc>(a: T, b: T) -> bool {
    let (fa, fb) = (a.f(), b.f());
    if fa.is_nan() || fb.is_nan() {
        return fa.is_nan() && fb.is_nan();
    }
    a.bits() == b.bits()
}

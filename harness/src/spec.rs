//! ModelSpec: a data description of a separable model, from which a hand-written model,
//! a builder-made model and row-scaled twins are derived independently (see models.rs).
use crate::Sc;
use num_traits::Float;
use serde::{Deserialize, Serialize};

#[derive(Clone, Copy, Debug, PartialEq, Eq, Hash, Serialize, Deserialize)]
pub enum Kind {
    /// exp(-x/tau)
    Exp,
    /// exp(-k x)
    Rate,
    /// exp(-(x-mu)^2/(2 sigma^2))
    Gauss,
    /// exp(-a x) cos(b x)
    DampedCos,
    /// sin(omega x + phi)
    Sine,
    /// gamma^2/((x-mu)^2+gamma^2)
    Lorentz,
    /// 1
    One,
    /// x
    X,
    /// x^2
    X2,
}

impl Kind {
    pub fn arity(self) -> usize {
        match self {
            Kind::Exp | Kind::Rate => 1,
            Kind::Gauss | Kind::DampedCos | Kind::Sine | Kind::Lorentz => 2,
            Kind::One | Kind::X | Kind::X2 => 0,
        }
    }
    pub const PARAMETRIC: [Kind; 6] =
        [Kind::Exp, Kind::Rate, Kind::Gauss, Kind::DampedCos, Kind::Sine, Kind::Lorentz];
    pub const INVARIANT: [Kind; 3] = [Kind::One, Kind::X, Kind::X2];

    /// value of the basis function at x for its own argument list
    #[inline]
    pub fn value<T: Sc>(self, x: T, a: &[T]) -> T {
        let two = T::of(2.0);
        match self {
            Kind::Exp => Float::exp(-x / a[0]),
            Kind::Rate => Float::exp(-a[0] * x),
            Kind::Gauss => {
                let d = x - a[0];
                Float::exp(-(d * d) / (two * a[1] * a[1]))
            }
            Kind::DampedCos => Float::exp(-a[0] * x) * Float::cos(a[1] * x),
            Kind::Sine => Float::sin(a[0] * x + a[1]),
            Kind::Lorentz => {
                let d = x - a[0];
                let g2 = a[1] * a[1];
                g2 / (d * d + g2)
            }
            Kind::One => T::of(1.0),
            Kind::X => x,
            Kind::X2 => x * x,
        }
    }

    /// partial derivative with respect to its own argument number `pos`
    #[inline]
    pub fn deriv<T: Sc>(self, pos: usize, x: T, a: &[T]) -> T {
        let two = T::of(2.0);
        match (self, pos) {
            (Kind::Exp, 0) => x / (a[0] * a[0]) * Float::exp(-x / a[0]),
            (Kind::Rate, 0) => -x * Float::exp(-a[0] * x),
            (Kind::Gauss, 0) => {
                let d = x - a[0];
                d / (a[1] * a[1]) * Float::exp(-(d * d) / (two * a[1] * a[1]))
            }
            (Kind::Gauss, 1) => {
                let d = x - a[0];
                d * d / (a[1] * a[1] * a[1]) * Float::exp(-(d * d) / (two * a[1] * a[1]))
            }
            (Kind::DampedCos, 0) => -x * Float::exp(-a[0] * x) * Float::cos(a[1] * x),
            (Kind::DampedCos, 1) => -x * Float::exp(-a[0] * x) * Float::sin(a[1] * x),
            (Kind::Sine, 0) => x * Float::cos(a[0] * x + a[1]),
            (Kind::Sine, 1) => Float::cos(a[0] * x + a[1]),
            (Kind::Lorentz, 0) => {
                let d = x - a[0];
                let g2 = a[1] * a[1];
                let den = d * d + g2;
                two * g2 * d / (den * den)
            }
            (Kind::Lorentz, 1) => {
                let d = x - a[0];
                let g2 = a[1] * a[1];
                let den = d * d + g2;
                two * a[1] * d * d / (den * den)
            }
            _ => panic!("harness bug: derivative position {pos} for {self:?}"),
        }
    }
}

#[derive(Clone, Debug, PartialEq, Eq, Hash, Serialize, Deserialize)]
pub struct Term {
    pub kind: Kind,
    /// model parameter indices bound to the arguments of the basis function, in the
    /// function's own argument order; pairwise distinct
    pub args: Vec<usize>,
}

#[derive(Clone, Debug, PartialEq, Eq, Hash, Serialize, Deserialize)]
pub struct ModelSpec {
    /// number of nonlinear model parameters
    pub p: usize,
    pub terms: Vec<Term>,
    /// units of the independent variable: the generators place x on [0, 10]·10^unit_exp and
    /// scale every parameter by 10^(unit_exp·dimension of its role) — nanosecond lifetimes given in
    /// seconds (-9) or time stamps in nanoseconds (+9). The basis matrix is the same up to
    /// rounding; derivative columns, parameter magnitudes and the normal matrix of the
    /// statistics change by many orders of magnitude. 0 = the catalogue's natural units.
    #[serde(default)]
    pub unit_exp: i8,
}

impl ModelSpec {
    pub fn m(&self) -> usize {
        self.terms.len()
    }
    /// every term's args are distinct, in range and have the right arity; every parameter
    /// is used by some term (the builder demands it)
    pub fn is_wellformed(&self) -> bool {
        if self.p == 0 || self.terms.is_empty() {
            return false;
        }
        let mut used = vec![false; self.p];
        for t in &self.terms {
            if t.args.len() != t.kind.arity() {
                return false;
            }
            for (i, a) in t.args.iter().enumerate() {
                if *a >= self.p || t.args[..i].contains(a) {
                    return false;
                }
                used[*a] = true;
            }
        }
        used.iter().all(|u| *u)
    }
    /// does some parameter feed more than one term?
    pub fn has_shared_param(&self) -> bool {
        (0..self.p).any(|k| self.terms.iter().filter(|t| t.args.contains(&k)).count() > 1)
    }
    pub fn eval_col<T: Sc>(&self, j: usize, x: &[T], alpha: &[T]) -> Vec<T> {
        let t = &self.terms[j];
        let a: Vec<T> = t.args.iter().map(|&i| alpha[i]).collect();
        x.iter().map(|&xi| t.kind.value(xi, &a)).collect()
    }
    /// column j of dPhi/d alpha_k (zero if term j does not depend on parameter k)
    pub fn deriv_col<T: Sc>(&self, j: usize, k: usize, x: &[T], alpha: &[T]) -> Vec<T> {
        let t = &self.terms[j];
        match t.args.iter().position(|&i| i == k) {
            None => vec![T::of(0.0); x.len()],
            Some(pos) => {
                let a: Vec<T> = t.args.iter().map(|&i| alpha[i]).collect();
                x.iter().map(|&xi| t.kind.deriv(pos, xi, &a)).collect()
            }
        }
    }
    /// which parameter "role" each model parameter plays (for tame domains); a parameter
    /// shared between roles takes the first one found
    /// 10^unit_exp
    pub fn unit(&self) -> f64 {
        10f64.powi(self.unit_exp as i32)
    }
    /// factor that converts a parameter value from the catalogue's natural units to this spec's units
    pub fn unit_factors(&self) -> Vec<f64> {
        self.roles().iter().map(|r| 10f64.powi(self.unit_exp as i32 * r.dimension())).collect()
    }
    /// every use of every parameter carries the same unit dimension and no basis function is a
    /// bare power of x (whose column norm would scale with the unit): only such specs get units
    pub fn unit_consistent(&self) -> bool {
        let mut dims: Vec<Option<i32>> = vec![None; self.p];
        for t in &self.terms {
            if matches!(t.kind, Kind::X | Kind::X2) {
                return false;
            }
            for (pos, &a) in t.args.iter().enumerate() {
                let d = match (t.kind, pos) {
                    (Kind::Exp, 0) | (Kind::Gauss, _) | (Kind::Lorentz, _) => 1,
                    (Kind::Rate, 0) | (Kind::DampedCos, _) | (Kind::Sine, 0) => -1,
                    _ => 0,
                };
                match dims[a] {
                    None => dims[a] = Some(d),
                    Some(e) if e != d => return false,
                    _ => {}
                }
            }
        }
        true
    }
    pub fn roles(&self) -> Vec<Role> {
        let mut roles = vec![Role::Generic; self.p];
        let mut set = vec![false; self.p];
        for t in &self.terms {
            for (pos, &a) in t.args.iter().enumerate() {
                if set[a] {
                    continue;
                }
                set[a] = true;
                roles[a] = match (t.kind, pos) {
                    (Kind::Exp, 0) => Role::Tau,
                    (Kind::Rate, 0) => Role::Rate,
                    (Kind::Gauss, 0) | (Kind::Lorentz, 0) => Role::Center,
                    (Kind::Gauss, 1) | (Kind::Lorentz, 1) => Role::Width,
                    (Kind::DampedCos, 0) => Role::Rate,
                    (Kind::DampedCos, 1) | (Kind::Sine, 0) => Role::Freq,
                    (Kind::Sine, 1) => Role::Phase,
                    _ => Role::Generic,
                };
            }
        }
        roles
    }
}

#[derive(Clone, Copy, Debug, PartialEq, Eq)]
pub enum Role {
    Tau,
    Rate,
    Center,
    Width,
    Freq,
    Phase,
    Generic,
}

impl Role {
    /// exponent of the x-unit carried by a parameter of this role
    pub fn dimension(self) -> i32 {
        match self {
            Role::Tau | Role::Center | Role::Width => 1,
            Role::Rate | Role::Freq => -1,
            Role::Phase | Role::Generic => 0,
        }
    }
    /// map u in [0,1) into the "tame" domain of the role: all catalogue functions and
    /// derivatives stay finite and well scaled for x in [0,10]
    pub fn tame(self, u: f64) -> f64 {
        match self {
            Role::Tau => 0.3 * (30.0f64 / 0.3).powf(u),     // 0.3 .. 30, log-uniform
            Role::Rate => 0.03 * (3.0f64 / 0.03).powf(u),   // 0.03 .. 3
            Role::Center => 10.0 * u,                       // 0 .. 10
            Role::Width => 0.5 * (8.0f64 / 0.5).powf(u),    // 0.5 .. 8
            Role::Freq => 0.2 + 2.8 * u,                    // 0.2 .. 3
            Role::Phase => -3.0 + 6.0 * u,
            Role::Generic => 0.5 + 2.0 * u,
        }
    }
}

/// central-difference self test of the catalogue's derivatives
pub fn self_test() -> Result<usize, String> {
    let mut n = 0;
    for kind in Kind::PARAMETRIC {
        for xi in [0.0f64, 0.7, 3.1, 9.9] {
            for (u0, u1) in [(0.1, 0.8), (0.5, 0.5), (0.9, 0.2)] {
                let spec = ModelSpec { p: kind.arity(), terms: vec![Term { kind, args: (0..kind.arity()).collect() }], unit_exp: 0 };
                let roles = spec.roles();
                let a: Vec<f64> = roles.iter().zip([u0, u1]).map(|(r, u)| r.tame(u)).collect();
                for pos in 0..kind.arity() {
                    let h = 1e-6 * a[pos].abs().max(1.0);
                    let mut ap = a.clone();
                    let mut am = a.clone();
                    ap[pos] += h;
                    am[pos] -= h;
                    let fd = (kind.value(xi, &ap) - kind.value(xi, &am)) / (2.0 * h);
                    let an = kind.deriv(pos, xi, &a);
                    if (fd - an).abs() > 1e-7 * (1.0 + an.abs()) {
                        return Err(format!("catalogue derivative {kind:?} pos {pos} at x={xi}, a={a:?}: analytic {an} vs fd {fd}"));
                    }
                    n += 1;
                }
            }
        }
    }
    Ok(n)
}

#!/usr/bin/env bash
# tools/benign_eval.sh <name> <worktree>: a behaviour-preserving refactoring written by an independent
# sub-agent (REFACTOR_patch.diff, REFACTOR_notes.md in the worktree). Confirms that the unedited suite
# passes with it, stores it under /verif/benign/<name>/ and runs EVERY quick check against it: each must
# stay silent (exit 0). An alarm is analysed by hand: either the refactoring does change behaviour
# (then it is kept as a breakage) or the check raised a false alarm (then the check is corrected).
set -u
NAME="$1"; WT="$2"
OUT=/verif/benign/$NAME; mkdir -p "$OUT"
cd "$WT" || exit 2
[ -f REFACTOR_patch.diff ] || { echo "no REFACTOR_patch.diff"; exit 2; }
cp REFACTOR_patch.diff "$OUT/patch.diff"; cp REFACTOR_notes.md "$OUT/agent_notes.md" 2>/dev/null
git apply --check -R REFACTOR_patch.diff 2>/dev/null || git apply REFACTOR_patch.diff || { echo "cannot apply"; exit 2; }
suite=$(cargo test --workspace --no-fail-fast --offline 2>&1 | grep -E "^test result" | awk '{p+=$4; f+=$6} END {print p" passed "f" failed"}')
suitep=$(cargo test --offline --features parallel 2>&1 | grep -E "^test result" | awk '{p+=$4; f+=$6} END {print p" passed "f" failed"}')
echo "suite with refactoring            : $suite"
echo "suite (parallel) with refactoring : $suitep"
ids=$(python3 -c "import json;print(' '.join(c['property_id'] for c in json.load(open('/verif/MANIFEST.json'))['checks']))")
res=$(/verif/tools/mutant.sh "$OUT/patch.diff" $ids 2>&1)
echo "$res"
{ echo "suite with refactoring            : $suite"; echo "suite (parallel) with refactoring : $suitep"; echo "$res"; } > "$OUT/result.txt"

#!/usr/bin/env bash
# tools/bg.sh <command...>: for `vp run --with-repo -- tools/bg.sh tools/silence.sh 0 40 quick`.
# Points the snapshot's harness and fuzz crates at the snapshot of /repo ($VP_RUN_REPO) instead of
# /repo itself, so that mutation experiments in /repo cannot disturb a background campaign.
cd "$(dirname "$0")/.." || exit 2
if [ -n "${VP_RUN_REPO:-}" ] && [ -d "$VP_RUN_REPO" ]; then
  sed -i "s#path = \"/repo\"#path = \"$VP_RUN_REPO\"#" harness/Cargo.toml fuzz/Cargo.toml
  echo "bg: using repository snapshot $VP_RUN_REPO ($(git -C "$VP_RUN_REPO" rev-parse --short HEAD 2>/dev/null))"
fi
exec "$@"

#!/usr/bin/env bash
# tools/coverage.sh [divisor]: which lines of /repo/src do the quick checks execute?
# Builds the harness with -C instrument-coverage (nightly) into /tmp/cov-target, runs every check
# with its quick case count divided by <divisor> (default 30; the instrumented build is ~50x slower
# because 16 shards contend for the counters), evidence redirected to /tmp/covrun, and prints
# the uncovered regions of varpro's sources. Diagnostic only: nothing registered depends on it.
set -u
DIV="${1:-30}"
cd /verif/harness || exit 2
RUSTFLAGS="-C instrument-coverage" CARGO_NET_OFFLINE=true cargo +nightly build --release --bin vpcheck --target-dir /tmp/cov-target 2>&1 | tail -1
find /repo /verif /root/.cargo/registry -name 'default_*.profraw' -delete 2>/dev/null
rm -rf /tmp/covrun; mkdir -p /tmp/covrun/evidence /tmp/covrun/replays
cp -r /verif/replays/regress /tmp/covrun/replays/; cp /verif/known_findings.json /tmp/covrun/
export VERIF_DIR=/tmp/covrun LLVM_PROFILE_FILE="/tmp/covrun/prof/%p-%m.profraw"
export VPCHECK_CHECKED_BIN=/tmp/cov-target/release/vpcheck VPCHECK_RELEASE_BIN=/tmp/cov-target/release/vpcheck
BIN=/tmp/cov-target/release/vpcheck
for id in $(python3 -c "import json;print(' '.join(c['property_id'] for c in json.load(open('/verif/MANIFEST.json'))['checks']))"); do
  n=$(python3 -c "import json;print(max(20, json.load(open('/verif/evidence/$id.json'))['coverage'].get('generated_cases_requested', 3000)//$DIV))")
  (cd /tmp/covrun && timeout 1500 $BIN $id --tier quick --cases $n 2>&1 | tail -1)
done
TOOLS=$(rustc +nightly --print sysroot)/lib/rustlib/x86_64-unknown-linux-gnu/bin
$TOOLS/llvm-profdata merge -sparse /tmp/covrun/prof/*.profraw -o /tmp/covrun/all.profdata
$TOOLS/llvm-cov report $BIN -instr-profile=/tmp/covrun/all.profdata $(find /repo/src -name '*.rs' | grep -v test) 2>/dev/null | grep -E "repo/src|TOTAL|Filename" | sed 's#/repo/src/##'
$TOOLS/llvm-cov show $BIN -instr-profile=/tmp/covrun/all.profdata --show-line-counts-or-regions -Xdemangler=rustfilt $(find /repo/src -name '*.rs') > /tmp/covrun/show.txt 2>/dev/null
echo "annotated sources: /tmp/covrun/show.txt"

#!/usr/bin/env bash
# tools/devcheck.sh <ID> [quick|thorough|--replay FILE]: run a check from a scratch copy of /verif's
# working tree (/tmp/vdev) against a clean checkout of /repo's HEAD (/tmp/repo_clean) — for the
# development loop while mutation experiments are patching /repo itself. Evidence stays in /tmp/vdev.
set -u
[ -d /tmp/repo_clean ] || git -C /repo worktree add -q --detach /tmp/repo_clean HEAD
git -C /tmp/repo_clean checkout -q --detach "$(git -C /repo rev-parse HEAD)" 2>/dev/null
mkdir -p /tmp/vdev
rsync -a --delete --exclude '/harness/target' --exclude '/fuzz/target' --exclude '/.git' --exclude '/replays/C*/' /verif/ /tmp/vdev/
sed -i 's#path = "/repo"#path = "/tmp/repo_clean"#' /tmp/vdev/harness/Cargo.toml
cd /tmp/vdev && exec ./check "$@"

#!/usr/bin/env bash
# tools/fuzz_stage.sh <ID> <target> <seconds>: coverage-guided libFuzzer campaign for the thorough
# tier. Two runs: from an empty corpus and from the committed seed corpus (fresh temp copies).
# Appends its statistics to evidence/<ID>.json under coverage.fuzz. Exit 1 with a VIOLATION line
# if the in-target oracle fails (the target writes the replay file itself), 2 if the fuzzer
# cannot be built/run (inconclusive), 0 otherwise.
set -u
ID="$1"; TARGET="$2"; SECS="$3"
VERIF_DIR="${VERIF_DIR:-/verif}"
export VERIF_DIR CARGO_NET_OFFLINE=true
# leaks are not a property violation (the harness leaks its per-shard rayon pools on purpose)
export ASAN_OPTIONS="${ASAN_OPTIONS:-detect_leaks=0}"
F="$VERIF_DIR/fuzz"
SEED="${VERIF_SEED:-0}"; [ "$SEED" = "0" ] && SEED=1
if ! (cd "$F" && cargo +nightly fuzz build --fuzz-dir . "$TARGET" >"$F/build.log" 2>&1); then
  echo "INCONCLUSIVE: cannot build fuzz target $TARGET (see $F/build.log)" >&2
  tail -5 "$F/build.log" >&2
  exit 2
fi
RUN="$F/corpus-run/$TARGET"; rm -rf "$RUN"; mkdir -p "$RUN/empty" "$RUN/seeded" "$F/artifacts/$TARGET"
cp "$VERIF_DIR/corpus/$TARGET/"* "$RUN/seeded/" 2>/dev/null
half=$((SECS/2)); [ $half -lt 5 ] && half=5
rc=0
stats="[]"
for mode in empty seeded; do
  log="$RUN/$mode.log"
  (cd "$F" && cargo +nightly fuzz run --fuzz-dir . "$TARGET" "$RUN/$mode" -- -seed="$SEED" -max_total_time="$half" -len_control=0 -max_len=4096 -timeout=60 -rss_limit_mb=4096 -print_final_stats=1 -detect_leaks=0 -artifact_prefix="$F/artifacts/$TARGET/" >"$log" 2>&1)
  frc=$?
  if grep -q "^VIOLATION" "$log"; then
    grep -A2 "^VIOLATION" "$log" | head -3
    rc=1
  elif [ $frc -ne 0 ]; then
    # crash/timeout/oom without an oracle message: a hang or a crash outside catch_unwind
    art=$(grep -oE "Test unit written to [^ ]+" "$log" | tail -1 | awk '{print $5}')
    kind=$(grep -oE "ERROR: libFuzzer: [a-z-]+|ERROR: AddressSanitizer: [a-z-]+" "$log" | tail -1)
    if echo "$kind" | grep -q "timeout" && [ -n "${art:-}" ]; then
      # a wall-clock timeout of libFuzzer is a load artefact unless the unit, re-executed alone with a
      # generous budget, still does not return (seen: a 40 ms unit reported after 20 s on a machine
      # running three other campaigns). Only for C08 is a confirmed hang a violation; for the other
      # properties a time budget is never a verdict (exit 2 = inconclusive).
      if (cd "$F" && timeout 900 cargo +nightly fuzz run --fuzz-dir . "$TARGET" "$art" -- -timeout=600 -detect_leaks=0 >"$RUN/$mode.confirm.log" 2>&1); then
        echo "note: libFuzzer timeout on $(basename "$art") not confirmed (unit returns when run alone); ignored"
        frc=0
      elif [ "$ID" != "C08" ]; then
        echo "INCONCLUSIVE: unit $(basename "$art") of $TARGET does not return within 600 s when run alone (time budgets are verdicts only for C08)" >&2
        [ $rc -eq 0 ] && rc=2
        frc=0
      fi
    fi
  fi
  if [ $frc -ne 0 ] && ! grep -q "^VIOLATION" "$log"; then
    mkdir -p "$VERIF_DIR/replays/$ID"
    dest="$VERIF_DIR/replays/$ID/fuzz-artifact-$(basename "${art:-unknown}")"
    [ -n "${art:-}" ] && cp "$art" "$dest"
    echo "VIOLATION property=$ID replay=$dest"
    echo "  sub-check: fuzz:${kind:-crash}"
    echo "  message  : libFuzzer target $TARGET stopped ($kind); raw input saved, re-run: cargo +nightly fuzz run --fuzz-dir $F $TARGET $dest"
    rc=1
  fi
  s=$(python3 - "$log" "$mode" "$RUN/$mode" <<'PY'
import re,sys,json,os
log=open(sys.argv[1],errors='replace').read()
def last(pat):
    m=re.findall(pat,log); return int(m[-1]) if m else None
print(json.dumps({"corpus":sys.argv[2],"runs":last(r"stat::number_of_executed_units:\s+(\d+)"),"cov":last(r"cov: (\d+)"),"ft":last(r"ft: (\d+)"),"corpus_files":len(os.listdir(sys.argv[3])),"new_units":last(r"stat::new_units_added:\s+(\d+)")}))
PY
)
  stats=$(python3 -c "import json,sys; a=json.loads(sys.argv[1]); a.append(json.loads(sys.argv[2])); print(json.dumps(a))" "$stats" "$s")
done
python3 - "$VERIF_DIR/evidence/$ID.json" "$stats" "$TARGET" "$SECS" "$rc" <<'PY'
import json,sys
p=sys.argv[1]; e=json.load(open(p))
e['coverage']['fuzz']={"engine":"libFuzzer via cargo-fuzz (ASan, debug assertions)","target":sys.argv[3],"seconds":int(sys.argv[4]),"campaigns":json.loads(sys.argv[2])}
if int(sys.argv[5])==1: e['violations']=e.get('violations',0)+1
json.dump(e,open(p,'w'),indent=2)
PY
echo "$ID thorough fuzz stage: $stats"
exit $rc

#!/usr/bin/env python3
"""Generate /verif/MANIFEST.json from the table below (kept valid at all times)."""
import json, os, sys
HERE = os.path.dirname(os.path.dirname(os.path.abspath(__file__)))

# id -> (level category, technique, level text, level note, design ref)
CHECKS = {
 "C02": ("exploration",
         "property-based testing (proptest) over update histories, caller- and optimizer-driven, with recomputation oracle",
         "Generated histories of parameter updates (caller-driven and LM-driven through a probing wrapper) and one real fit per case; after every update residuals(), weighted_data(), params() and after the fit best_fit()/nonlinear_parameters() are recomputed independently in f64 from the model's own Phi and compared componentwise.",
         "Trusted: harness f64 arithmetic; Phi as evaluated by the model; componentwise rounding bound 8(M+4) u_T.",
         "§4 C02"),
 "C03": ("exploration",
         "property-based testing (proptest) with projector oracle, finite-difference gradient oracle and exhaustive derivative-fault injection per case",
         "Generated problems visited along histories; every Jacobian column is checked against the orthogonality/range characterisation of -(I-P) W D_k C, the harness' own projector, Richardson finite differences of the projected objective, and each derivative call of jacobian() is made to fail in turn (None expected).",
         "Trusted: harness f64 linear algebra, catalogue formulas (self-tested by central differences); premise full column rank decided by the oracle's singular values; tolerances calibrated by a reference pipeline (nalgebra SVD).",
         "§4 C03"),
 "C06": ("exploration",
         "property-based differential testing (proptest): weighted problem vs row-scaled unweighted twin, plus metamorphic relations for unit and zero weights",
         "Generated weighted problems are compared, at every alpha of an LM run, after independent fits and in their statistics, with an unweighted twin whose model rows and observations are pre-multiplied by the weights; all-ones weights are compared with no weights; zero-weight rows are perturbed and deleted.",
         "Trusted: the twin's row scaling (harness code, one multiplication per entry). Comparisons are bitwise where the computations coincide, otherwise condition-aware tolerances (kappa-gated, gated cases counted).",
         "§4 C06"),
 "C07": ("exploration",
         "property-based differential testing (proptest): S-column problem vs S single-column problems, column-permutation metamorphic relation",
         "Generated multi-rhs problems are compared block by block with single-rhs problems for each column at construction, after caller updates and at every alpha of an LM run; a column-permuted problem must show the permuted blocks.",
         "Trusted: nothing beyond the public constructors; comparisons bitwise, else condition-aware tolerance relative to |W D_k c| for Jacobian blocks.",
         "§4 C07"),
 "C10": ("exploration",
         "stateful property-based testing (proptest, generated operation histories) with fresh-problem differential oracle and heap-poisoning differential",
         "Generated histories of updates and queries (repeats, failing, extreme parameters) are executed twice under a harness-side global allocator that pre-fills every fresh allocation (also in the rayon workers) with 0xFF and 0x5A; after every successful update the reported state must be bitwise equal to a freshly built problem at that alpha, repeated queries must be bitwise equal, and the two poison runs must agree bitwise.",
         "Trusted: the allocator wrapper; heap contents are sampled by two patterns only; MSan/Miri deliberately not used (other technique family).",
         "§4 C10"),
 "C11": ("exploration",
         "property-based differential testing (proptest): parallel vs sequential flavour, bitwise, over pool sizes and schedule jitter",
         "The same generated inputs go through the sequential and the parallel constructors; the parallel problem runs in dedicated rayon pools of three generated sizes (1..16) with CPU-burning jitter in the derivative evaluation; every update of an LM run, whole fits and into_sequential() are compared bitwise.",
         "Schedules are sampled, not enumerated: rayon cannot be put under a schedule-owning runtime with what is installed.",
         "§4 C11"),
 "C01": ("exploration",
         "property-based testing (proptest, 16 seeded shards) with independent linear-algebra oracle + metamorphic linearity relation",
         "Generated search over models x alpha x data x weights x thresholds x flavours, visiting construction, caller updates and every LM trial step; each reported coefficient matrix is checked against optimality predicates (truncated normal equations, minimum norm) and an independently written f64 Jacobi-SVD pseudo-inverse. Establishes absence of violations only on the explored cases; shrunk counterexamples become replay files.",
         "Trusted: the harness' own f64 linear algebra (self-tested on every run), the model's own Phi (C16 checks builder-made models separately), rounding tolerances K*u_T calibrated against a reference pipeline using nalgebra's SVD (nalgebra 0.33.3's SVD has rare large backward errors; see DESIGN.md §3.6).",
         "§4 C01"),
}
PLANNED = {
 "C02": "check not built yet in this working session (planned, DESIGN.md §4 C02)",
 "C03": "check not built yet in this working session (planned, DESIGN.md §4 C03)",
 "C04": "check not built yet in this working session (planned, DESIGN.md §4 C04)",
 "C05": "check not built yet in this working session (planned, DESIGN.md §4 C05)",
 "C06": "check not built yet in this working session (planned, DESIGN.md §4 C06)",
 "C07": "check not built yet in this working session (planned, DESIGN.md §4 C07)",
 "C08": "check not built yet in this working session (planned, DESIGN.md §4 C08)",
 "C09": "check not built yet in this working session (planned, DESIGN.md §4 C09)",
 "C10": "check not built yet in this working session (planned, DESIGN.md §4 C10)",
 "C11": "check not built yet in this working session (planned, DESIGN.md §4 C11)",
 "C12": "check not built yet in this working session (planned, DESIGN.md §4 C12)",
 "C13": "check not built yet in this working session (planned, DESIGN.md §4 C13)",
 "C14": "check not built yet in this working session (planned, DESIGN.md §4 C14)",
 "C15": "check not built yet in this working session (planned, DESIGN.md §4 C15)",
 "C16": "check not built yet in this working session (planned, DESIGN.md §4 C16)",
 "C17": "check not built yet in this working session (planned, DESIGN.md §4 C17)",
 "C18": "check not built yet in this working session (planned, DESIGN.md §4 C18)",
 "C19": "check not built yet in this working session (planned, DESIGN.md §4 C19)",
}

def main():
    checks = []
    for pid in sorted(CHECKS):
        cat, tech, text, note, ref = CHECKS[pid]
        checks.append({
            "property_id": pid,
            "quick_cmd": f"./check {pid} quick",
            "thorough_cmd": f"./check {pid} thorough",
            "evidence_file": f"/verif/evidence/{pid}.json",
            "replay_cmd_template": f"./check {pid} --replay {{path}}",
            "engine": "vpharness",
            "level_claimed": {"category": cat, "text": text, "design_ref": ref},
            "level_note": note,
            "technique": tech,
        })
    na = [{"property_id": k, "reason": v} for k, v in sorted(PLANNED.items()) if k not in CHECKS]
    man = {
        "version": 1,
        "setup_cmd": "./check --setup",
        "hooks": {
            "guard": "varpro_verif",
            "enable": "no source hooks are needed: every observation goes through public API (the guard name is reserved and unused); the harness enables varpro's upstream cargo feature 'parallel' through its dependency declaration",
            "baseline_off_cmd": "cd /repo && cargo test --workspace --no-fail-fast --offline",
            "source_commits": [],
            "add_only": True,
        },
        "engines": [
            {"name": "vpharness", "path": "/verif/harness", "serves_properties": sorted(CHECKS),
             "kind_free_text": "Rust crate: proptest strategies run from a binary (16 seeded shards, shrinking, replay files), bounded-exhaustive enumerators, fault-position enumeration, watched worker process; oracles = own f64 linear algebra / Student-t / declarative builder specifications / differential twins"},
        ],
        "checks": checks,
        "not_applicable": na,
        "notes": "All checks: exit 0 = held on everything explored, 1 = VIOLATION line with replay path, 2 = inconclusive (build failure, time budget, too few non-trivial cases). VERIF_SEED selects the run; evidence is rewritten on every run. Fix commits in /repo: 25f4fec (C09), 42d657b (C08), ce265fb (C12); see known_findings.json.",
    }
    with open(os.path.join(HERE, "MANIFEST.json"), "w") as f:
        json.dump(man, f, indent=1)
        f.write("\n")
    try:
        import jsonschema
        schema = json.load(open("/root/.vp/MANIFEST.schema.json"))
        jsonschema.validate(man, schema)
        print("MANIFEST.json valid:", len(checks), "checks,", len(na), "not applicable")
    except ImportError:
        print("MANIFEST.json written (jsonschema not available for validation)")

if __name__ == "__main__":
    main()

#!/usr/bin/env bash
# tools/mutant.sh <patch.diff> <ID> [<ID>...]: apply a patch to /repo, run the quick checks, revert.
# Prints one line per check: "<ID> exit=<code>". Never leaves /repo modified.
# The checks run from a scratch copy of /verif's working tree (default /tmp/veval, with its own
# build directory), so that the evidence files under /verif are not overwritten by runs against
# a modified tree and /verif can be edited meanwhile.
set -u
PATCH="$(realpath "$1")"; shift
EVAL="${VERIF_EVAL_DIR:-/tmp/veval}"
REPO=/repo
# MUTANT_PRIVATE=1: patch a private checkout of /repo's HEAD (/tmp/mrepo) instead of /repo itself and
# run from a second scratch copy: for long regression sweeps that must not block /repo
if [ -n "${MUTANT_PRIVATE:-}" ]; then
  EVAL=/tmp/veval_priv; REPO=/tmp/mrepo
  [ -d "$REPO" ] || git -C /repo worktree add -q --detach "$REPO" HEAD
  git -C "$REPO" checkout -q --detach "$(git -C /repo rev-parse HEAD)"; git -C "$REPO" checkout -- .
fi
mkdir -p "$EVAL"
rsync -a --delete --exclude '/harness/target' --exclude '/fuzz/target' --exclude '/.git' --exclude '/replays/C*/' "${VERIF_SRC:-/verif}/" "$EVAL/"
[ -n "${MUTANT_PRIVATE:-}" ] && sed -i "s#path = \"/repo\"#path = \"$REPO\"#" "$EVAL/harness/Cargo.toml"
cd "$REPO" || exit 2
if ! git diff --quiet; then echo "/repo has uncommitted changes" >&2; exit 2; fi
if ! git apply "$PATCH"; then echo "patch does not apply" >&2; exit 2; fi
trap 'git -C "$REPO" checkout -- . ' EXIT
for id in "$@"; do
  out="$(cd "$EVAL" && VERIF_SEED=${VERIF_SEED:-0} ./check "$id" "${VERIF_TIER_MUT:-quick}" 2>&1)"; code=$?
  echo "$id exit=$code $(echo "$out" | grep -m1 -A2 '^VIOLATION' | tr '\n' ' ' | cut -c1-300)"
done

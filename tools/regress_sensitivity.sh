#!/usr/bin/env bash
# tools/regress_sensitivity.sh [pattern]: re-run every stored breakage against the check(s) that are
# recorded to detect it and report what is no longer detected — run after generator or oracle
# changes. Hand-written mutants (mutants/cNN_*.diff) are run against the check of their name; benign_*
# refactors against the checks that once flagged them (they must stay silent); seeded changes against
# the first two entries of meta.json's detected_by. Never run while another mutant run is active.
cd "$(dirname "$0")/.." || exit 2
PAT="${1:-}"
lost=0; total=0
run() { # patch, expect (1 = must be detected, 0 = must stay silent), ids...
  local patch="$1" expect="$2"; shift 2
  local res; res=$(tools/mutant.sh "$patch" "$@" 2>&1)
  for id in "$@"; do
    total=$((total+1))
    code=$(echo "$res" | grep -oE "^$id exit=[0-9]+" | cut -d= -f2)
    if [ "$expect" = 1 ] && [ "$code" != 1 ]; then lost=$((lost+1)); echo "LOST   $patch $id exit=$code"; 
    elif [ "$expect" = 0 ] && [ "$code" != 0 ]; then lost=$((lost+1)); echo "NOISY  $patch $id exit=$code $(echo "$res" | grep "^$id" | cut -c1-200)";
    else echo "ok     $patch $id exit=$code"; fi
  done
}
for f in mutants/*.diff; do
  [ -n "$PAT" ] && [[ "$f" != *$PAT* ]] && continue
  b=$(basename "$f")
  case "$b" in
    benign_coefficients*) run "$f" 0 C01 C02 ;;
    benign_jacobian*) run "$f" 0 C03 C09 ;;
    benign_weights*) run "$f" 0 C12 C13 ;;
    nearly_benign*) run "$f" 1 C08 ;;
    c[0-9][0-9]_*) id=$(echo "${b:0:3}" | tr c C); run "$f" 1 "$id" ;;
  esac
done
for d in seeded/*/; do
  [ -n "$PAT" ] && [[ "$d" != *$PAT* ]] && continue
  ids=$(python3 -c "import json,sys; m=json.load(open('$d/meta.json')); t=m['property_broken'][:3]; d=m['detected_by']; o=[t] if t in d else []; o+= [x for x in d if x!=t][:1 if o else 2]; print(' '.join(o))")
  [ -f "${d}meta.json" ] || continue
  [ -n "$ids" ] || { echo "skip   ${d}patch.diff (documented as not detected)"; continue; }
  # a seeded change counts as lost only if NONE of its recorded detectors (owner first) flags it any more
  res=$(tools/mutant.sh "${d}patch.diff" $ids 2>&1); total=$((total+1))
  if echo "$res" | grep -qE "^C[0-9]+ exit=1"; then echo "ok     ${d}patch.diff $(echo "$res" | grep -oE "^C[0-9]+ exit=[0-9]+" | tr '\n' ' ')";
  else lost=$((lost+1)); echo "LOST   ${d}patch.diff $(echo "$res" | grep -oE "^C[0-9]+ exit=[0-9]+" | tr '\n' ' ')"; fi
done
echo "sensitivity regression: $lost of $total expectations not met"
[ $lost -eq 0 ]

#!/usr/bin/env bash
# tools/run_all.sh [quick|thorough] [seed]: run every registered check on the current tree,
# print one line per check, validate the evidence files against the schema.
cd "$(dirname "$0")/.." || exit 2
TIER="${1:-quick}"; export VERIF_SEED="${2:-${VERIF_SEED:-0}}"
ids=$(python3 -c "import json;print(' '.join(c['property_id'] for c in json.load(open('MANIFEST.json'))['checks']))")
rc=0
for id in $ids; do
  t0=$(date +%s)
  out=$(./check "$id" "$TIER" 2>&1); code=$?
  t1=$(date +%s)
  echo "$id exit=$code $((t1-t0))s $(echo "$out" | tail -1)"
  if [ $code -ne 0 ]; then rc=1; echo "$out" | grep -A3 -E "VIOLATION|INCONCLUSIVE|KNOWN" | head -8; fi
done
python3-vt - <<'PY' || rc=1
import json, jsonschema, glob, sys
schema = json.load(open('/root/.vp/EVIDENCE.schema.json'))
man = json.load(open('MANIFEST.json'))
bad = 0
for c in man['checks']:
    f = c['evidence_file']
    try:
        e = json.load(open(f)); jsonschema.validate(e, schema)
        if e['level'] != c['level_claimed']['category']: print('level mismatch', f); bad += 1
    except Exception as ex:
        print('EVIDENCE INVALID', f, str(ex)[:200]); bad += 1
print('evidence files valid' if not bad else f'{bad} evidence problems')
sys.exit(1 if bad else 0)
PY
exit $rc

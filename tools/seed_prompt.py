#!/usr/bin/env python3
"""tools/seed_prompt.py <name> <property id> <already used ideas>  -> /tmp/prompts/<name>.txt
The prompt handed to an independent sub-agent that is asked for a property-breaking change.
It contains the text of ONE property and nothing from /verif."""
import json, sys, os
name, pid, used = sys.argv[1], sys.argv[2], sys.argv[3]
props = {json.loads(l)['id']: json.loads(l) for l in open('/verif/properties.jsonl')}
d = props[pid]
T = '''You are working in a scratch git worktree of the Rust crate geo-ant/varpro (separable nonlinear least squares by variable projection) at {dir}. The sandbox is OFFLINE: always pass --offline to cargo; builds go to {dir}/target (the default). Work ONLY inside {dir}; do not read or touch /repo, /verif or any other worktree.

Here is a semantic property of the library that is supposed to hold:

  Title: {title}
  Statement: {stmt}

YOUR TASK: write a subtle, realistic change to the library source (files under src/) that BREAKS this property while
 (1) still compiling both with and without `--features parallel`,
 (2) passing the WHOLE existing test suite, unedited: `cargo test --workspace --no-fail-fast --offline` AND `cargo test --offline --features parallel` (doc tests included), and
 (3) looking like something a maintainer could plausibly merge (a refactor, an optimisation, a "robustness" tweak, a tidy-up) — not an obviously malicious edit.
The change must need something SPECIFIC in order to manifest: an unusual input or shape, a particular multi-step sequence of calls, a fault at a particular point, a particular thread-pool size or interleaving, a particular build profile or scalar type, or two cooperating sites that each look fine alone. It must NOT be something ordinary use (the README example, the existing tests, a typical fit) would expose at once. Narrower and more cleverly hidden is better, as long as you can still demonstrate it deterministically (or with high probability) through the public API.
Ideas that were ALREADY used for this property and must not be repeated (nor near variants of them): {used}. Find a genuinely different mechanism and a different trigger.

First read the relevant source (src/solvers/levmar/mod.rs, src/solvers/levmar/builder.rs, src/statistics/mod.rs, src/model/**, src/util/**, src/basis_function/**) to understand how the property is currently ensured.

DELIVERABLES, all in the worktree root {dir}:
 - SEEDED_patch.diff : the output of `git diff -- src` (your source change ONLY, not the demo), applicable with `git apply` on a clean checkout of HEAD. Keep it small (ideally under 60 changed lines).
 - tests/seeded_demo.rs : an integration test using only the public API of varpro and its (dev-)dependencies (nalgebra, levenberg_marquardt, approx, num-traits ...) that FAILS with your change and PASSES without it; it must run with `cargo test --offline --features parallel --test seeded_demo`. Make its assertions about the property as stated (not about internals).
 - SEEDED_notes.md : what the change is, which sentence of the property it breaks, exactly what is needed for it to manifest, and the commands you ran with their results.
VERIFY EVERYTHING YOURSELF: (a) with the change applied and tests/seeded_demo.rs temporarily moved aside, both suite commands pass; (b) with the change the demo fails; (c) after `git apply -R SEEDED_patch.diff` the demo passes; then re-apply the patch so that the worktree is left WITH the change applied and with the demo in place. Do not commit anything. When done, reply with a short summary (what, trigger, results of a/b/c).'''
os.makedirs('/tmp/prompts', exist_ok=True)
open(f'/tmp/prompts/{name}.txt', 'w').write(T.format(dir=f'/tmp/wt/{name}', title=d['title'], stmt=d['statement'], used=used))
print(f'/tmp/prompts/{name}.txt')

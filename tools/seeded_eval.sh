#!/usr/bin/env bash
# tools/seeded_eval.sh <name> <worktree> <ID> [<ID>...]
# 1. confirm in the scratch worktree: suite passes with the change, demo fails with it, demo passes without it
# 2. store patch/demo/notes under /verif/seeded/<name>/
# 3. apply the patch to /repo, run the quick checks <ID>..., revert
set -u
NAME="$1"; WT="$2"; shift 2
OUT=/verif/seeded/$NAME
mkdir -p "$OUT"
cd "$WT" || exit 2
[ -f SEEDED_patch.diff ] || { echo "no SEEDED_patch.diff"; exit 2; }
cp SEEDED_patch.diff "$OUT/patch.diff"
cp tests/seeded_demo.rs "$OUT/seeded_demo.rs" 2>/dev/null
cp SEEDED_notes.md "$OUT/agent_notes.md" 2>/dev/null
# state: patch applied?
if git apply --check -R SEEDED_patch.diff 2>/dev/null; then :; else git apply SEEDED_patch.diff || { echo "cannot apply patch in worktree"; exit 2; }; fi
mkdir -p /tmp/demo_aside && mv tests/seeded_demo.rs /tmp/demo_aside/$NAME.rs
suite=$(cargo test --workspace --no-fail-fast --offline 2>&1 | grep -E "^test result" | awk '{p+=$4; f+=$6} END {print p" passed "f" failed"}')
mv /tmp/demo_aside/$NAME.rs tests/seeded_demo.rs
demo_with=$(cargo test --offline --features parallel --test seeded_demo 2>&1 | grep -E "^test result" | tail -1)
git apply -R SEEDED_patch.diff
demo_without=$(cargo test --offline --features parallel --test seeded_demo 2>&1 | grep -E "^test result" | tail -1)
git apply SEEDED_patch.diff
echo "suite with change : $suite"
echo "demo with change  : $demo_with"
echo "demo without      : $demo_without"
# 3. our checks
res=$(/verif/tools/mutant.sh "$OUT/patch.diff" "$@" 2>&1)
echo "$res"
{
 echo "suite with change : $suite"; echo "demo with change  : $demo_with"; echo "demo without      : $demo_without"; echo "$res"
} > "$OUT/confirmation.txt"

#!/usr/bin/env python3
"""Write /verif/seeded/<name>/meta.json for every seeded change from its confirmation.txt."""
import json, os, re, glob
NEEDS = {
 "C02e_parallel_rollback_reads_previous_too_late": "parallel flavour: a set_params at which evaluation fails (overflow region) after a valid state; the rollback reads model.params() after the model already holds the new parameters, so the old cache stays under the new parameters",
 "C03e_zero_test_by_underflowing_norm": "f32 and |W D_k C| below ~2.6e-23 in every element (tiny units of y and x): nalgebra's unscaled norm() underflows to zero and the column is filled with zeros",
 "C04e_column_normalisation_with_overflowing_norm": "a column of W*Phi with finite entries whose sum of squares overflows (f32: entries >= 1.8e19/sqrt(N)): norm = inf, column and coefficient become exactly 0, fit returns Ok at the initial guess",
 "C07e_global_rhs_scale_underflows_small_columns": "several right-hand sides whose magnitudes differ by more than the dynamic range of the scalar type (f32: 1e-27 next to 1e20): one global power-of-two scale underflows the small columns",
 "C09e_success_by_tiny_objective_despite_model_failure": "observations in small units (objective <= machine epsilon from the first evaluation) and a model failure met by the optimizer: was_successful() is true, fit returns Ok",
 "C10e_parallel_scratch_gemm_accumulates": "parallel flavour and a rayon leaf job with >= 2 Jacobian columns (1 worker: P >= 3; 2-3 workers: P >= 5): gemm with beta = 1 adds onto the worker's scratch",
 "C11e_parallel_skip_for_equal_params_ignores_signed_zero": "parallel flavour, a valid cache, then set_params with a vector that differs only in the sign of a zero component: == sees no change, the stale state is kept",
 "C15e_independent_variable_keeps_function_open": "function(..), [partial_deriv..], independent_variable(x), partial_deriv(..) supplying the missing derivative: the function under construction is not finalised by independent_variable, build() returns Ok",
 "C16e_column_cache_flag_cleared_before_fallible_eval": "a successful eval, set_params changing a parameter of function j, an eval that fails inside function j, then another eval without function j's parameters changing: column j is stale",
 "C17e_length_check_latched_off_after_first_success": "a basis function that returned the right length once and a wrong length later (length depending on parameter values): the latched-off check lets nalgebra's copy_from panic",
 "C01e_truncated_solve_transpose_instead_of_adjoint": "a model with a complex scalar type and genuinely complex basis values: U^T y instead of U^H y in the truncated solve (real scalars are bit-identical)",
 "C05d_dark_right_hand_sides_dropped_from_jacobian": "all linear coefficients of all right-hand sides at most epsilon in magnitude (data in tiny units: f32 amplitudes below 1.2e-7, f64 below 2.2e-16, or a user epsilon): the Jacobian is zero, the fit stops at the initial guess with Orthogonal",
 "C06d_weights_applied_twice_when_rhs_equals_basis_count": "non-uniform weights and as many right-hand sides as basis functions (S == M; single rhs: exactly one basis function): two overlapping conditionals weight both D_k and D_k*C",
 "C08d_nan_epsilon_panics_in_svd_rank": "epsilon(NaN) and an evaluation of the Jacobian: nalgebra's SVD::rank asserts eps >= 0",
 "C12d_noimprovement_success_and_missing_recheck": "two edits: was_successful() true for NoImprovementPossible + the re-check after fit removed; needs optimizer tolerances below machine precision (with_solver)",
 "C13d_exact_fit_shortcut_sizes_covariance_by_parameter_count": "a successful fit whose reduced chi2 is exactly 0.0 (data reproduced bit for bit, ResidualsZero): the shortcut builds a P x P covariance",
 "C14d_band_zero_below_absolute_epsilon": "j_i^T Cov j_i at or below machine epsilon in absolute terms (data of magnitude 1e-6, or order-one data known to 8 digits; f32: noise below 3e-4): the band is 0 at that sample",
 "C18d_default_epsilon_is_f64_epsilon_for_f32": "f32 models without an epsilon() call and a singular value between 2.2e-16 and 1.19e-7",
 "C19d_parallel_band_uses_weighted_rows": "two edits: fit_with_statistics forwards PAR, the rayon branch of the band loop takes rows of W*J; needs new_parallel, non-unit weights and confidence_band_radius",
 "C02d_same_point_skip_with_norm_relative_comparison": "badly scaled parameters (|alpha| dominated by one component, e.g. omega ~ 1e6..1e9 next to a phase) and an update that moves only the small component by less than eps*|alpha|: the cache is kept although the model received the new parameters",
 "C03d_jacobian_projector_truncated_at_epsilon": "a full-column-rank W*Phi with some but not all singular values at or below epsilon (user epsilon, f32 default epsilon with a column ~1e-8, tiny weights): the projector in jacobian() shrinks to the kept singular vectors",
 "C04d_unsigned_dof_subtraction_in_jacobian": "more basis functions than samples (N < M), a non-zero initial residual and a build with overflow checks: nrows - ncoefficients panics inside fit",
 "C07d_rank_tolerance_from_rhs_shape": "more right-hand sides than samples (S > N) and a near-collinear basis with N*eps < sigma_min/sigma_max < S*eps: the truncation threshold grows with the number of observation columns",
 "C09d_memo_restore_ignores_model_error": "set_params(a), set_params(b), set_params(a) with the model failing on the third call (inside a fit: the final re-application after a single rejected trial): memoised calculations restored although the model refused",
 "C10d_cache_kept_on_svd_breakdown": "a finite W*Phi whose decomposition breaks down (entries ~1e308) applied to a problem that holds a valid cache: the old cache is kept, a fresh problem reports None",
 "C11d_parallel_projector_truncated_at_epsilon": "parallel flavour only: a singular value at or below epsilon at an alpha where the Jacobian is evaluated (exact collision, vanishing basis function, user epsilon)",
 "C15d_unused_parameter_bitmask_off_by_one": "exactly 64 model parameters: 1u64 << 64 panics in overflow-checked builds for a valid specification; in release the mask is 0 and an unused parameter is accepted",
 "C16d_invariant_function_precalculated_on_first_grid": "independent_variable(x1) before invariant_function(f), then independent_variable(x2) of the same length with other values, f not constant: column evaluated on x1",
 "C17d_empty_grid_shortcut_before_checks": "a builder-made model with an independent variable of length 0: out-of-range derivative index or wrong-length function output give Ok(0 x M) instead of an error",
 "C05c_parameter_run_fast_path_checks_ends_only": "a builder function with >= 3 parameters whose first and last model indices bound exactly that many positions but whose interior indices are permuted or outside (model [tau,t0,omega,phi], function (tau,phi,omega)): evaluated on the wrong parameters",
 "C06c_tiny_weights_masked_as_zero": "a non-zero weight of magnitude <= 2.2e-16 (standard deviations above 4.5e15 in the units used): the row is multiplied by 0 instead of w_i",
 "C08c_par_all_finite_zero_chunk": "parallel flavour with N*M smaller than the number of workers of the ambient rayon pool (3 samples x 2 functions, 8 workers): par_chunks(0) panics inside build()/set_params",
 "C12c_statistics_jacobian_flat_map_drops_errors": "eval_partial_deriv failing during the P calls of the statistics phase after a successful fit: Ok with a covariance matrix one column short (panic if all P fail)",
 "C13c_sigma_from_nonzero_weight_count": "weights containing an exact 0: covariance scaled by |r|^2/(N_nonzero-M-P) instead of the reduced chi2",
 "C14c_band_from_weighted_rows_divided_by_weight": "a weight of exactly 0 and fit_with_statistics: the band at that sample is 0/0 = NaN",
 "C18c_epsilon_filtered_by_is_normal": "a supplied epsilon of +-0 or a subnormal value together with a singular value of W*Phi in (|eps|, machine eps] (tiny-scaled basis or weights): machine epsilon is used instead",
 "C19c_uniform_weights_replaced_by_unit": "explicit weights that are all identical and != 1 (equal sigma, weights 1/sigma): stored as Unit, reduced chi2 / standard error / weighted residuals lose the factor w^2",
 "C01d_svd_convergence_tolerance_from_epsilon": "a user epsilon well above machine epsilon (1e-8..1e-3): the SVD iteration stops early, coefficients off by ~0.1-1 x epsilon relative even for well-conditioned problems",
 "C02c_magnitude_normalisation_shadows_phi": "largest |W*Phi| entry finite and above sqrt(MAX) (1.3e154; f32 1.8e19) or below sqrt(MIN_POSITIVE): the matrix is normalised before the SVD, coefficients are un-scaled, but the residual is formed with the normalised matrix (shadowed binding)",
 "C03c_parallel_jacobian_block_index": "parallel flavour on a pool of t workers with 2 <= t < P and ceil(P/t) not dividing P (P=3, t=2): the trailing block of Jacobian columns holds the derivative of an earlier parameter",
 "C04c_residuals_from_full_projector_in_set_params": "a singular value of W*Phi(alpha_hat) at or below epsilon: residuals Y_w - U U^T Y_w project out truncated directions too, the coefficients do not",
 "C07c_par_solve_drops_trailing_rhs_blocks": "mrhs_parallel, S/T >= 16 and S % T != 0 for the ambient pool size T (S >= 32): the last S % T coefficient columns stay zero",
 "C09c_parallel_jacobian_fold_loses_derivative_error": "parallel flavour, a failure of eval_partial_deriv(k) whose column shares a rayon leaf job with a later succeeding column (1 worker and P=3, k=1): jacobian() returns Some, fit returns Ok",
 "C10c_truncation_threshold_ratchets_up": "an earlier set_params at an alpha where cond(W*Phi) > 1/(max(m,n) eps) and sigma_max is large, then an alpha with a singular value in (eps, max(m,n) eps sigma_max_earlier]: the raised threshold persists in the problem",
 "C11c_map_init_scratch_accumulates": "parallel flavour with more Jacobian columns than rayon splits into single-column leaves (T=1: P>=3, T=2-3: P>=5, T=4-7: P>=9): gemm with beta=1 accumulates onto the worker's scratch",
 "C15c_fast_path_skips_arity_check": "a function whose parameter list equals the complete model parameter list in model order (always for one-parameter models) together with a function or derivative of the wrong arity: build() returns Ok, evaluation panics",
 "C16c_dependency_mask_saturates_vs_wraps": "a builder-made model with more than 64 parameters: eval_partial_deriv(k) for k >= 64 returns a zero column (mask saturates at the builder, wraps at the query)",
 "C17c_initial_parameters_unchecked_after_function": "initial_parameters with a wrong-length vector directly after function()/partial_deriv(): accepted by build(); evaluation panics (debug) or silently uses a prefix (release)",
 "C05b_parallel_jacobian_block_start_index": "parallel flavour inside a rayon pool of T workers with P > ceil(P/T) and P % ceil(P/T) != 0 (e.g. P=3, T=2): the trailing block of Jacobian columns is filled with the derivative of the wrong parameter",
 "C06b_svd_threshold_scaled_by_max_weight": "non-unit weights and a singular value of W*Phi in (eps, eps*max|w|] (user epsilon, nearly collinear basis functions): weighted problem truncates, row-scaled twin does not",
 "C08b_statistics_unguarded_svd_nonfinite_H": "fit_with_statistics on a fit that ends with ResidualsZero at the start (all-zero data) for a model whose derivative is non-finite there: nalgebra's unguarded SVD of H panics (2 columns) or never returns (>= 3 columns)",
 "C12b_projection_residuals_under_truncation": "a singular value <= epsilon at the solution (user epsilon, nearly collinear basis): solver residuals (I-UU^T)Y_w differ from the statistics' y_w - W Phi c",
 "C13b_normal_matrix_par_chunks_exact_rows": "parallel feature, ambient rayon pool of T >= 2 workers, N/T >= 512 and N % T != 0: the trailing N % T rows never reach H^T H",
 "C14b_quantile_level_in_scalar_type": "f32 models and p within a few ulps of 0 or 1: (1+p)/2 rounded in f32 shifts the quantile level by ~3e-8 (radius inf at p = 1-2^-24)",
 "C17b_aggregate_length_check_in_eval": "two or more basis functions of one model returning wrong lengths that cancel (n+1 and n-1, 2n and 0): eval() returns Ok with values shifted across columns",
 "C18b_all_ones_weights_become_unit": "weights of the wrong length whose entries are all exactly 1: stored as Unit, length check skipped, build() Ok",
 "C19b_pseudo_inverse_absolute_epsilon": "a nonlinear parameter of magnitude >= 1e9 (x in nanoseconds): eigenvalues of H^T H below machine epsilon in absolute terms are truncated by pseudo_inverse(eps), the reported variance collapses",
 "C01c_skip_update_for_nearly_equal_params": "set_params with parameters that differ from the previous ones by <= machine epsilon absolutely but a lot relatively (tiny parameters: nanosecond lifetimes in seconds; f32): recomputation skipped, stale coefficients",
 "C01b_par_solve_chunks_exact": "parallel flavour (mrhs_parallel), S >= 9 and S not a multiple of 8: the trailing S mod 8 coefficient columns stay zero",
 "C02b_best_fit_from_unweighting_residuals": "FitResult::best_fit with at least one weight exactly 0: (0-0)/0 = NaN rows",
 "C03b_nonadjacent_shared_parameter_run": "a parameter shared by basis functions that are not adjacent in basis order (f0(tau), f1(omega), f2(tau)): later nonzero derivative columns dropped",
 "C04b_noimprovementpossible_counts_as_success": "with_solver with ftol and xtol below machine epsilon so that the optimizer ends with NoImprovementPossible: fit returns Ok",
 "C07b_parallel_rhs_blocks_unweighted_derivative": "parallel flavour, S >= 8, S > P and non-unit weights: Jacobian blocks lack the weights",
 "C09b_parallel_eval_failure_keeps_cache": "parallel flavour only: model.set_params succeeds, the following eval() fails, and a valid cache exists from earlier parameters: stale state kept",
 "C10b_incremental_phi_cache_first_function_only": "builder-made model with a parameter shared by >= 2 functions, update differing from the previous alpha in exactly that coordinate: later functions keep their old column",
 "C11b_completion_order_dependent_columns": "schedule dependent: >= 2 worker threads and P >= 3; Jacobian columns assembled in completion order (insert at min(k, len))",
 "C15b_case_insensitive_derivative_names": "a derivative name equal to a function parameter ignoring ASCII case but different as a string (e.g. model [k, K])",
 "C16b_derivative_key_via_sorted_names": "a function of arity >= 2 whose parameter list is not in lexicographic order: derivative stored under another parameter's index",
 "C01_relative_svd_threshold": "a singular value of W*Phi between eps and eps*sigma_max: a user-chosen epsilon, nearly collinear basis functions, sigma_max != 1",
 "C02_residual_from_projector": "a singular value <= epsilon at the alpha in effect (collinear basis functions or a user threshold): residuals then subtract the projection onto truncated directions too",
 "C03_derivative_errors_dropped_by_or": "a model whose eval_partial_deriv(k) fails while eval() succeeds; Result::or instead of and keeps Ok",
 "C04_rollback_cache_without_model": "a fit that terminates on a rejected trial step which was the only trial since the last accepted step (optimizer re-applies accepted parameters): cache rolled back, model not",
 "C05_mrhs_fast_path_sign": "more right-hand sides than basis functions (S > M): the fast path computes +P_perp D_k C instead of -P_perp D_k C",
 "C06_zero_weights_reduce_dof": "at least one weight exactly 0.0 and the statistics path (fit_with_statistics)",
 "C07_jacobian_block_offset": "three or more right-hand sides: Jacobian blocks 2.. are written to block 1 / left uninitialised",
 "C08_gemm_scratch_wrong_shape_N_lt_M": "fewer samples than basis functions (N < M): gemm dimension assert panics in jacobian()",
 "C09_expect_on_coefficients_after_failed_reapply": "fit_with_statistics, a converged fit whose last trial was rejected, and a model failure exactly in the optimizer's final re-application (set_params or the eval after it): expect() panics",
 "C10_zero_column_early_out_uninit": "D_k*C exactly zero (derivative vanishing identically at alpha, or all-zero coefficients): the Jacobian column is left unwritten (uninitialised memory)",
 "C11_par_chunks_exact_drops_columns": "parallel flavour with more parameters than worker threads and P % ceil(P/T) != 0 (e.g. P=3,T=2): trailing Jacobian columns unwritten",
 "C12_checked_sub_allows_zero_dof": "exactly N = M + P with a successful fit: Ok with zero degrees of freedom (reduced chi2 = inf/NaN)",
 "C15_initial_guess_length_checked_at_build": "initial_parameters called at least twice, an earlier call with the wrong length and the last with the right length",
 "C16_contiguous_block_fast_path": "a function of arity >= 3 whose parameters span a contiguous block of the model list but are not in model order, e.g. (a,d,c) over (a,b,c,d)",
 "C17_assign_before_check_via_helper": "a rejected (wrong-length) set_params followed by params()/eval(): the rejected vector overwrote the state",
 "C18_observations_setter_resets_weights": "weights(..) called before observations(..) (or observations called again afterwards): weights silently dropped / wrong-length weights accepted",
}
base = "/verif/seeded"
for d in sorted(glob.glob(base + "/*/")):
    name = os.path.basename(d.rstrip("/"))
    conf = os.path.join(d, "confirmation.txt")
    if not os.path.exists(conf):
        continue
    text = open(conf).read()
    lines = text.splitlines()
    det = [(m.group(1), int(m.group(2))) for m in (re.match(r"^(C\d+) exit=(\d+)", l) for l in lines) if m]
    meta = {
        "name": name,
        "property_broken": name.split("_")[0],
        "origin": "independent sub-agent working in a scratch git worktree of /repo with only the property text (nothing from /verif)",
        "needs_to_manifest": NEEDS.get(name, "see agent_notes.md"),
        "confirmed_in_scratch_worktree": {
            "existing_suite_with_change": next((l.split(":",1)[1].strip() for l in lines if l.startswith("suite with change")), ""),
            "demo_with_change": next((l.split(":",1)[1].strip() for l in lines if l.startswith("demo with change")), ""),
            "demo_without_change": next((l.split(":",1)[1].strip() for l in lines if l.startswith("demo without")), ""),
            "commands": ["cargo test --workspace --no-fail-fast --offline (demo moved aside)", "cargo test --offline --features parallel --test seeded_demo", "git apply -R SEEDED_patch.diff; cargo test --offline --features parallel --test seeded_demo"],
        },
        "checks_run_against_it": {pid: ("VIOLATION (exit 1)" if code == 1 else f"exit {code}") for pid, code in det},
        "detected_by": [pid for pid, code in det if code == 1],
        "how_run": "tools/mutant.sh seeded/<name>/patch.diff <IDs>  (git -C /repo apply; ./check <ID> quick; git -C /repo checkout -- .)",
        "files": sorted(os.listdir(d)),
    }
    rr = os.path.join(d, "rerun_after_strengthening.txt")
    if os.path.exists(rr):
        det2 = [(m.group(1), int(m.group(2))) for m in (re.match(r"^(C\d+) exit=(\d+)", l) for l in open(rr).read().splitlines()) if m]
        meta["initially_missed_by"] = [pid for pid, code in det if code != 1]
        meta["after_strengthening"] = {pid: ("VIOLATION (exit 1)" if code == 1 else f"exit {code}") for pid, code in det2}
        meta["detected_by"] = sorted(set(meta["detected_by"]) | {pid for pid, code in det2 if code == 1})
    json.dump(meta, open(os.path.join(d, "meta.json"), "w"), indent=1)
    print(name, "detected by", meta["detected_by"])

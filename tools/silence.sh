#!/usr/bin/env bash
# tools/silence.sh <first_seed> <count> [tier]: run every registered check for several seeds on
# the current tree and report every non-zero exit (false-alarm hunt on the unchanged tree).
cd "$(dirname "$0")/.." || exit 2
FIRST="${1:-100}"; COUNT="${2:-10}"; TIER="${3:-quick}"
ids=$(python3 -c "import json;print(' '.join(c['property_id'] for c in json.load(open('MANIFEST.json'))['checks']))")
bad=0
for ((s=FIRST; s<FIRST+COUNT; s++)); do
  for id in $ids; do
    out=$(VERIF_SEED=$s ./check "$id" "$TIER" 2>&1); code=$?
    if [ $code -ne 0 ]; then
      bad=$((bad+1))
      echo "seed=$s $id exit=$code"
      echo "$out" | grep -A3 -E "^VIOLATION|INCONCLUSIVE" | head -6
      # keep the replay
      rp=$(echo "$out" | grep -m1 -oE "replay=[^ ]+" | cut -d= -f2)
      # kept outside the snapshot directory of a background run (vp stop removes that)
      keep="${SILENCE_KEEP:-/tmp/silence_failures}"
      [ -n "$rp" ] && mkdir -p "$keep" && cp "$rp" "$keep/${id}_seed${s}_$(basename "$rp")"
    fi
  done
  echo "seed $s done ($bad problems so far)"
done
echo "silence run finished: $bad problems"
[ $bad -eq 0 ]
